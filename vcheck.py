#!/venv/bin/python
"""vcheck.py <Cxx> --tier quick|thorough     run the check of one property against $ALGOPY_REPO (default /repo)
vcheck.py --replay <file>                   re-run the witness of a recorded violation

exit 0: property held on everything explored (KNOWN-FINDING lines possible)
exit 1: VIOLATION property=<id> replay=<path>
exit 2: INCONCLUSIVE (deciding monitor not reached, monitor errors, shard timeout, wrong SUT)
"""
import os, sys, json, time, argparse, subprocess, tempfile, importlib

sys.dont_write_bytecode = True
HERE = os.path.dirname(os.path.abspath(__file__))
sys.path.insert(0, HERE)
os.environ.setdefault('PYTHONHASHSEED', '0')
os.environ.setdefault('OMP_NUM_THREADS', '1')
os.environ.setdefault('OPENBLAS_NUM_THREADS', '1')
os.environ.setdefault('MKL_NUM_THREADS', '1')


def load_check(pid):
    from adsan import boot
    boot.load_sut()
    return importlib.import_module('adsan.checks.' + pid.lower())


import contextlib


_GC = {'n': 0}


@contextlib.contextmanager
def ambient(ctx, case):
    """ambient state of the interpreter / of NumPy that a caller may legitimately have set and that no result may depend on:
    chosen from the case seed (so that a replay sees the same), restored afterwards.  1, 3: terse print options (arrays are
    abbreviated with '...' from 2 resp. 4 entries on); 2: a garbage collection right before the case"""
    import numpy, gc
    sd = case.get('seed') if isinstance(case, dict) else None
    k = (int(sd) >> 5) % 4 if isinstance(sd, int) else 0
    saved = numpy.get_printoptions()
    try:
        if k == 1:
            numpy.set_printoptions(threshold=3, edgeitems=1, precision=2, linewidth=40)
        elif k == 3:
            numpy.set_printoptions(threshold=1, edgeitems=1, precision=1, suppress=True)
        elif k == 2:
            # a full collection now and then (it costs milliseconds: 300 000 of them would dominate a thorough run), the youngest
            # generation otherwise
            _GC['n'] += 1
            gc.collect() if _GC['n'] % 500 == 1 else gc.collect(0)
        ctx.extra.setdefault('ambient_state_cases', {})
        key = ['default', 'print options threshold=3', 'gc.collect() before the case', 'print options threshold=1'][k]
        ctx.extra['ambient_state_cases'][key] = ctx.extra['ambient_state_cases'].get(key, 0) + 1
        yield k
    finally:
        numpy.set_printoptions(**saved)


def run_shard(pid, tier, seed, shard, nshards, out):
    import warnings
    import numpy
    warnings.simplefilter('ignore')
    numpy.seterr(all='ignore')
    from adsan import core
    mod = load_check(pid)
    ctx = core.Ctx(pid, tier, seed)
    cases = mod.cases(tier, seed)
    mine = cases[shard::nshards]
    if hasattr(mod, 'setup'):
        mod.setup(ctx, tier)
    reached = _reach_start()
    budget = float(os.environ.get('VERIF_SHARD_BUDGET', '0') or 0)
    t0 = time.time()
    for c in mine:
        if budget and time.time() - t0 > budget:
            ctx.skip('shard_time_budget')
            continue
        ctx.current_case = c
        ctx.cases += 1
        try:
            with ambient(ctx, c):
                mod.run_case(ctx, c)
        except Exception as e:   # a failure of the harness itself, never a verdict on the SUT
            ctx.monitor_error('run_case', e)
    ctx.current_case = None
    if hasattr(mod, 'teardown'):
        mod.teardown(ctx)
    ctx.extra['reached_library_functions'] = sorted(reached)
    json.dump(ctx.dump(), open(out, 'w'), default=str)


def _reach_start():
    """reach evidence (not a verdict): which functions of the library under test were entered by this shard.
    sys.monitoring PY_START with DISABLE after the first hit of each code object: negligible overhead"""
    reached = set()
    try:
        import sys as _s
        mon = _s.monitoring
        from adsan import boot
        root = os.path.join(boot.repo_path(), 'algopy') + os.sep
        tool = mon.PROFILER_ID
        mon.use_tool_id(tool, 'adsan-reach')

        def on_start(code, offset):
            fn = code.co_filename
            if fn.startswith(root) and os.sep + 'tests' + os.sep not in fn:
                reached.add(fn[len(root):] + ':' + code.co_qualname)
            return mon.DISABLE
        mon.register_callback(tool, mon.events.PY_START, on_start)
        mon.set_events(tool, mon.events.PY_START)
    except Exception:
        pass
    return reached


def main():
    ap = argparse.ArgumentParser()
    ap.add_argument('pid', nargs='?')
    ap.add_argument('--tier', default=os.environ.get('VERIF_TIER', 'quick'))
    ap.add_argument('--seed', type=int, default=int(os.environ.get('VERIF_SEED', '0') or 0))
    ap.add_argument('--shard', type=int)
    ap.add_argument('--nshards', type=int)
    ap.add_argument('--out')
    ap.add_argument('--replay')
    ap.add_argument('--jobs', type=int, default=int(os.environ.get('VERIF_JOBS', '16')))
    a = ap.parse_args()

    if a.replay:
        return replay(a.replay)
    pid = a.pid.upper()
    if a.shard is not None:
        run_shard(pid, a.tier, a.seed, a.shard, a.nshards, a.out)
        return 0

    from adsan import core, boot
    boot.ensure_deps()
    mod = load_check(pid)
    ncases = len(mod.cases(a.tier, a.seed))
    nshards = max(1, min(a.jobs, ncases // max(1, getattr(mod, 'MIN_CASES_PER_SHARD', 4))))
    timeout = getattr(mod, 'SHARD_TIMEOUT', {'quick': 600, 'thorough': 3000})[a.tier]
    ctx = core.Ctx(pid, a.tier, a.seed)
    dead = []
    with tempfile.TemporaryDirectory(prefix='vcheck_') as td:
        procs = []
        for i in range(nshards):
            out = os.path.join(td, 'shard%d.json' % i)
            log = open(os.path.join(td, 'shard%d.log' % i), 'w')
            p = subprocess.Popen([sys.executable, os.path.abspath(__file__), pid, '--tier', a.tier, '--seed', str(a.seed),
                                  '--shard', str(i), '--nshards', str(nshards), '--out', out],
                                 stdout=log, stderr=subprocess.STDOUT, cwd=HERE)
            procs.append((i, p, out, log))
        deadline = time.time() + timeout
        for i, p, out, log in procs:
            try:
                rc = p.wait(timeout=max(1, deadline - time.time()))
            except subprocess.TimeoutExpired:
                p.kill(); p.wait()
                rc = 'timeout'
            log.close()
            if rc == 0 and os.path.exists(out):
                ctx.merge(json.load(open(out)))
            else:
                tail = open(log.name).read()[-1500:]
                dead.append((i, rc, tail))
    for i, rc, tail in dead:
        ctx.monitor_errors.append({'where': 'shard %d' % i, 'error': 'exit=%s' % rc, 'tb': tail, 'case': None})
    ctx.extra['shards'] = nshards
    ctx.extra['cases_generated'] = ncases
    fin = getattr(mod, 'finish', None)
    if fin:
        return fin(ctx)
    return core.finish(ctx, getattr(mod, 'REQUIRED', []), mod.RULE, level=getattr(mod, 'LEVEL', 'exploration'),
                       assumptions=getattr(mod, 'ASSUMPTIONS', []),
                       exhaustive=getattr(mod, 'EXHAUSTIVE', {}).get(a.tier) if hasattr(mod, 'EXHAUSTIVE') else None)


def replay(path):
    import warnings, numpy
    warnings.simplefilter('ignore')
    numpy.seterr(all='ignore')
    from adsan import core
    r = json.load(open(path))
    pid = r['property']
    mod = load_check(pid)
    ctx = core.Ctx(pid, r.get('tier', 'quick'), r.get('seed', 0))
    case = r['witness'].get('case')
    if case is None:
        print('INCONCLUSIVE replay file has no case'); return 2
    if hasattr(mod, 'setup'):
        mod.setup(ctx, ctx.tier)
    ctx.current_case = case
    with ambient(ctx, case):
        mod.run_case(ctx, case)
    if hasattr(mod, 'teardown'):
        mod.teardown(ctx)
    known = core.load_known()
    rc = 0
    for mech, w in ctx.violations.items():
        f = core.classify(pid, mech, known)
        if f:
            print('KNOWN-FINDING: property=%s %s [%s]' % (pid, f['what'], f['id']))
        else:
            print('VIOLATION property=%s replay=%s  # %s: %s' % (pid, path, mech, core._short(w)))
            rc = 1
    if not ctx.violations:
        print('replay: no violation (%d events checked)' % ctx.evaluations)
    return rc


if __name__ == '__main__':
    try:
        rc = main()
    except SystemExit:
        raise
    except BaseException as e:          # a failure of the harness itself is never a verdict on the code under test
        import traceback
        traceback.print_exc()
        print('INCONCLUSIVE harness error: %s: %s' % (type(e).__name__, str(e)[:200]))
        rc = 2
    sys.exit(rc)
