"""Input generators shared by the workloads (all randomness comes from the case seed)."""
import numpy as np

PATTERNS = ['random', 'zeros_high', 'last_only', 'x1_zero', 'alternating', 'big', 'small', 'integers']


def rng_of(case):
    return np.random.default_rng(case['seed'])


def base_sampler(dom):
    """returns f(rng, shape, complex) -> array of base points inside the guarded domain `dom`"""
    def f(rng, shape, cplx=False):
        n = int(np.prod(shape, dtype=int)) if len(shape) else 1
        if not cplx:
            if dom == 'R':
                v = rng.normal(size=n)
            elif dom == 'Rzero':
                v = rng.normal(size=n)
                v[rng.random(size=n) < 0.5] = 0.0          # exact zeros at the base point
                if n:
                    v[int(rng.integers(n))] = 0.0
            elif dom == 'Rzero_mixed':          # exact zeros in some directions (this sampler is called once per direction), none in others
                v = rng.normal(size=n)
                v = np.where(np.abs(v) < 0.2, 0.2, v)
                if n and rng.random() < 0.5:
                    v[int(rng.integers(n))] = 0.0
            elif dom == 'pos':
                v = rng.uniform(0.3, 3.0, size=n)
            elif dom == 'gtm1':
                v = rng.uniform(-0.6, 3.0, size=n)
            elif dom == 'unit':
                v = rng.uniform(-0.85, 0.85, size=n)
            elif dom == 'tan':
                v = rng.uniform(-1.2, 1.2, size=n)
            elif dom == 'nz':
                v = rng.uniform(0.4, 2.0, size=n) * rng.choice([-1.0, 1.0], size=n)
            elif dom == 'logit':
                v = rng.uniform(0.15, 0.85, size=n)
            elif dom == 'gamma':
                v = rng.uniform(0.5, 4.0, size=n)
            elif dom == 'gamma_neg':          # negative non-integers: gammaln, psi, polygamma are smooth between the poles
                v = -rng.integers(0, 3, size=n) - rng.uniform(0.25, 0.75, size=n)
            elif dom == 'small':
                v = rng.uniform(-0.4, 0.4, size=n)
            elif dom in ('wcperm', 'wcperm_pos', 'symrep', 'rankdef'):
                m = shape[0]
                if dom == 'symrep':
                    # symmetric; every other call has an exactly repeated eigenvalue
                    Qm, _ = np.linalg.qr(rng.normal(size=(m, m)))
                    lam = np.cumsum(rng.uniform(0.5, 1.5, size=m))
                    if rng.random() < 0.5 and m > 1:
                        lam[1] = lam[0]
                    v = (Qm * lam) @ Qm.T
                    v = 0.5 * (v + v.T)
                elif dom == 'rankdef':
                    # tall/square matrix; every other call is rank deficient (last column = combination of the others)
                    v = well_conditioned(rng, shape[0], shape[1])
                    if rng.random() < 0.5 and shape[1] > 1:
                        v[:, -1] = v[:, 0] * 0.5 - v[:, -2] if shape[1] > 2 else 2.0 * v[:, 0]
                else:
                    Am = well_conditioned(rng, m)
                    Am = Am + np.diag(np.sign(np.diag(Am)) * 3.0 + (np.diag(Am) == 0) * 3.0)
                    Am = Am[rng.permutation(m)]           # a different pivot pattern on every call (= per direction)
                    if dom == 'wcperm_pos' and np.linalg.det(Am) < 0:
                        Am[0] *= -1.0
                    v = Am
                return np.asarray(v, dtype=float).reshape(shape)
            else:
                raise KeyError(dom)
        else:
            if dom == 'R':
                v = 0.8 * (rng.normal(size=n) + 1j * rng.normal(size=n))
            elif dom in ('pos', 'gamma'):
                v = rng.uniform(0.4, 2.5, size=n) + 0.6j * rng.normal(size=n)
            elif dom == 'gtm1':
                v = rng.uniform(-0.5, 2.5, size=n) + 0.6j * rng.normal(size=n)
            elif dom in ('unit', 'small'):
                v = rng.uniform(0.05, 0.7, size=n) * np.exp(2j * np.pi * rng.uniform(size=n))
            elif dom == 'tan':
                v = rng.uniform(-1.0, 1.0, size=n) + 0.5j * rng.normal(size=n)
            elif dom == 'nz':
                v = rng.uniform(0.5, 2.0, size=n) * np.exp(2j * np.pi * rng.uniform(size=n))
            elif dom == 'tanh':
                v = rng.normal(size=n) + 1j * rng.uniform(-1.0, 1.0, size=n)
            else:
                raise KeyError(dom)
        return v.reshape(shape)
    return f


def series_data(rng, D, P, shape, dom='R', pattern='random', cplx=False, scale=0.7):
    """(D,P)+shape array: base points per direction drawn independently inside `dom`,
    higher coefficients according to `pattern`"""
    shape = tuple(shape)
    dt = complex if cplx else float
    x = np.zeros((D, P) + shape, dtype=dt)
    bs = base_sampler(dom)
    for p in range(P):
        x[0, p] = bs(rng, shape, cplx)
    if P >= 3 and rng.random() < 0.15:
        x[0, P - 1] = x[0, 0]          # the first base point again after different ones (X, Y, X)
    elif P >= 2 and rng.random() < 0.12 and dom not in ('Rzero', 'Rzero_mixed'):
        # neighbouring base points: within 1e-8 ... 1e-12 (relative) of direction 0, not equal to it
        for p in range(1, P):
            x[0, p] = x[0, 0] * (1.0 + 10.0 ** -float(rng.integers(8, 13)) * rng.normal(size=x[0, 0].shape))

    def rnd(size):
        v = rng.normal(size=size)
        if cplx:
            v = v + 1j * rng.normal(size=size)
        return v
    if D > 1:
        hi = scale * rnd((D - 1, P) + shape)
        if pattern == 'random':
            pass
        elif pattern == 'zeros_high':
            hi[...] = 0
        elif pattern == 'last_only':
            hi[:-1] = 0
        elif pattern == 'x1_zero':
            hi[0] = 0
        elif pattern == 'alternating':
            hi = np.abs(hi.real) * ((-1.0) ** np.arange(1, D)).reshape((D - 1,) + (1,) * (hi.ndim - 1)) + (1j * hi.imag if cplx else 0)
        elif pattern == 'big':
            hi *= 30.0
        elif pattern == 'small':
            hi *= 1e-3
        elif pattern == 'integers':
            hi = np.round(3 * hi.real) + (1j * np.round(3 * hi.imag) if cplx else 0)
        else:
            raise KeyError(pattern)
        x[1:] = hi
    return x


def well_conditioned(rng, n, m=None, kind='general'):
    """n x m base matrix with cond <~ 30"""
    m = n if m is None else m
    k = min(n, m)
    U, _ = np.linalg.qr(rng.normal(size=(n, n)))
    V, _ = np.linalg.qr(rng.normal(size=(m, m)))
    s = rng.uniform(0.6, 3.0, size=k)
    S = np.zeros((n, m)); S[:k, :k] = np.diag(s)
    return U @ S @ V.T


def spd(rng, n):
    Q, _ = np.linalg.qr(rng.normal(size=(n, n)))
    lam = rng.uniform(0.5, 4.0, size=n)
    return (Q * lam) @ Q.T


def sym_with_gaps(rng, n, gap=0.4):
    Q, _ = np.linalg.qr(rng.normal(size=(n, n)))
    lam = np.cumsum(rng.uniform(gap, 1.5, size=n)) - 2.0
    rng.shuffle(lam)
    return (Q * lam) @ Q.T


LAYOUTS = ['C', 'F', 'T', 'strided', 'reversed', 'unaligned']


def relayout(data, mode):
    """same values and shape, different memory layout (the kernels must not depend on contiguity):
    C: C-contiguous copy; F: Fortran order over all axes; T: coefficient axes stored transposed (data is a
    transposed view of a C-contiguous buffer); strided: every second element of a larger buffer along the last axis;
    reversed: negative stride along the last axis"""
    data = np.asarray(data)
    if mode == 'unaligned' and data.size and data.dtype.itemsize > 1:
        # a C-ordered array whose buffer starts at an odd byte offset (a field of a packed record, a slice of a byte stream)
        raw = np.zeros(data.nbytes + 1, dtype=np.uint8)
        out = raw[1:].view(data.dtype).reshape(data.shape)
        out[...] = data
        return out
    if mode in ('C', 'unaligned') or data.ndim < 3:
        return np.array(data, order='C', copy=True)
    if mode == 'F':
        return np.array(data, order='F', copy=True)
    if mode == 'T':
        nd = data.ndim
        perm = (0, 1) + tuple(range(2, nd))[::-1]
        buf = np.array(np.transpose(data, perm), order='C', copy=True)
        return np.transpose(buf, perm)           # axes 2.. reversed back: a non-contiguous view with the original values
    if mode == 'strided':
        shp = data.shape[:-1] + (2 * data.shape[-1],)
        buf = np.zeros(shp, dtype=data.dtype)
        buf[..., ::2] = data
        return buf[..., ::2]
    if mode == 'reversed':
        buf = np.array(data[..., ::-1], order='C', copy=True)
        return buf[..., ::-1]
    raise KeyError(mode)
