"""Workload pool: the directed workloads of the other checks, re-used as hosts for the always-on monitors
(C10/C11/C12/C14 ride on them).  Verdicts of the host check are discarded; only the attached monitors record."""
import importlib
import numpy as np
from . import core

HOSTS = ['c01', 'c02', 'c07', 'c08', 'c13', 'c03', 'c05', 'c06', 'c04', 'c09']


def pool_cases(tier, seed, hosts, per_host):
    """deterministic subsample of every host's case list"""
    out = []
    for h in hosts:
        mod = importlib.import_module('adsan.checks.' + h)
        cs = mod.cases(tier, seed)
        if len(cs) > per_host:
            step = len(cs) / float(per_host)
            cs = [cs[int(i * step)] for i in range(per_host)]
        for c in cs:
            out.append({'kind': 'pool', 'seed': c['seed'], 'params': {'host': h, 'case': c}})
    return out


_scratch = {}


def run_host(case):
    h = case['params']['host']
    mod = importlib.import_module('adsan.checks.' + h)
    ctx = _scratch.get(h)
    if ctx is None:
        ctx = _scratch[h] = core.Ctx(h.upper())
    ctx.current_case = case['params']['case']
    try:
        mod.run_case(ctx, case['params']['case'])
    except Exception:
        pass        # the host check's own problems are reported by the host check
    # keep the scratch context small
    ctx.violations.clear(); ctx.samples.clear(); ctx.monitor_errors.clear()


def ambient_case(pid):
    return {'kind': 'ambient', 'seed': 0, 'params': {'monitor': pid}}


def run_ambient(ctx, pid, timeout=900):
    """W-amb: the repository's own test-suite under the probe layer with this property's monitor (subprocess);
    the monitor's observations are merged into ctx"""
    import os, sys, json, subprocess, tempfile
    from . import boot
    repo = boot.repo_path()
    with tempfile.TemporaryDirectory(prefix='adsan_amb_') as td:
        out = os.path.join(td, 'amb.json')
        env = dict(os.environ, ALGOPY_VERIF='1', ADSAN_MONITORS=pid, ADSAN_OUT=out, PYTHONPATH=boot.VERIF, PYTHONDONTWRITEBYTECODE='1')
        r = subprocess.run([sys.executable, '-m', 'pytest', '-q', '-p', 'no:cacheprovider', '-p', 'adsan.pytest_plugin', 'algopy', '--timeout=300'],
                           cwd=repo, env=env, stdout=subprocess.PIPE, stderr=subprocess.STDOUT, text=True, timeout=timeout)
        if not os.path.exists(out):
            ctx.monitor_error('ambient', RuntimeError('no plugin output: ' + r.stdout[-300:])); return
        d = json.load(open(out))
    if not os.path.realpath(d['algopy_file']).startswith(repo + os.sep):
        ctx.monitor_error('ambient', RuntimeError('ambient run imported %s' % d['algopy_file'])); return
    c = d['ctx'][pid]
    cases = ctx.cases
    ctx.merge(c)
    ctx.cases = cases
    ctx.extra['ambient_probe_calls'] = d['probe_calls']
    ctx.extra['ambient_repo_tests'] = ([l for l in r.stdout.splitlines() if ' passed' in l or ' failed' in l] or [''])[-1].strip()
    if d['pytest_exit'] != 0:
        # the instrumentation must be transparent: a failing repository test under the probe layer is a harness problem
        ctx.monitor_error('ambient', RuntimeError('repository tests fail under the probe layer: ' + ctx.extra['ambient_repo_tests']))
        return
    ctx.ok('ambient', ('ambient', pid))


def ambient_docs_case(pid):
    return {'kind': 'ambient-docs', 'seed': 0, 'params': {'monitor': pid}}


def run_ambient_docs(ctx, pid, per_script_timeout=90, workers=8):
    """W-amb (documentation): every runnable example script under documentation/ is executed in its own subprocess with
    the probe layer and this property's monitor; scripts that need missing third-party modules end early and are counted"""
    import os, sys, json, glob, subprocess, tempfile
    from concurrent.futures import ThreadPoolExecutor
    from . import boot
    repo = boot.repo_path()
    scripts = sorted(glob.glob(os.path.join(repo, 'documentation', 'sphinx', 'examples', '*.py')) +
                     glob.glob(os.path.join(repo, 'documentation', 'sphinx', '*.py')) + glob.glob(os.path.join(repo, 'documentation', '*.py')))
    runner = os.path.join(boot.VERIF, 'adsan', 'run_under_probe.py')
    status = {}
    with tempfile.TemporaryDirectory(prefix='adsan_docs_') as td:
        def one(sc):
            out = os.path.join(td, os.path.basename(sc) + '.json')
            try:
                subprocess.run([sys.executable, runner, sc, out, pid], cwd=repo, stdout=subprocess.DEVNULL, stderr=subprocess.DEVNULL,
                               timeout=per_script_timeout, env=dict(os.environ, PYTHONDONTWRITEBYTECODE='1', MPLBACKEND='Agg'))
            except subprocess.TimeoutExpired:
                return sc, None
            return sc, (json.load(open(out)) if os.path.exists(out) else None)
        with ThreadPoolExecutor(workers) as ex:
            results = list(ex.map(one, scripts))
    cases = ctx.cases
    ran = 0
    for sc, d in results:
        name = os.path.basename(sc)
        if d is None:
            ctx.skip('docs-timeout-or-no-output'); status[name] = 'timeout'; continue
        if not os.path.realpath(d['algopy_file']).startswith(repo + os.sep):
            ctx.monitor_error('ambient-docs', RuntimeError('imported %s' % d['algopy_file'])); continue
        status[name] = d['status'][:60]
        if d['probe_calls']:
            ran += 1
        ctx.merge(d['ctx'][pid])
    ctx.cases = cases
    ctx.extra['documentation_scripts'] = status
    if ran:
        ctx.ok('ambient-docs', ('ambient-docs', pid, ran))
