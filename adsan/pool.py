"""Workload pool: the directed workloads of the other checks, re-used as hosts for the always-on monitors
(C10/C11/C12/C14 ride on them).  Verdicts of the host check are discarded; only the attached monitors record."""
import importlib
import numpy as np
from . import core

HOSTS = ['c01', 'c02', 'c07', 'c08', 'c13', 'c03', 'c05', 'c06', 'c04', 'c09']


def pool_cases(tier, seed, hosts, per_host):
    """deterministic subsample of every host's case list"""
    out = []
    for h in hosts:
        mod = importlib.import_module('adsan.checks.' + h)
        cs = mod.cases('quick', seed)
        if len(cs) > per_host:
            step = len(cs) / float(per_host)
            cs = [cs[int(i * step)] for i in range(per_host)]
        for c in cs:
            out.append({'kind': 'pool', 'seed': c['seed'], 'params': {'host': h, 'case': c}})
    return out


_scratch = {}


def run_host(case):
    h = case['params']['host']
    mod = importlib.import_module('adsan.checks.' + h)
    ctx = _scratch.get(h)
    if ctx is None:
        ctx = _scratch[h] = core.Ctx(h.upper())
    ctx.current_case = case['params']['case']
    try:
        mod.run_case(ctx, case['params']['case'])
    except Exception:
        pass        # the host check's own problems are reported by the host check
    # keep the scratch context small
    ctx.violations.clear(); ctx.samples.clear(); ctx.monitor_errors.clear()
