"""W-prog: the catalogue of single-operation programs over the differentiable API, a generator of random
straight-line compositions, and helpers to record / replay / sweep them through the tracer.

Every program is a Python callable written against the generic algopy API, so the same code runs
directly on ndarray, directly on UTPM, and on Function (recording)."""
import numpy as np
import algopy
from algopy import UTPM, CGraph, Function
from . import gen

A = algopy
SP = algopy.special


class Prog:
    def __init__(self, name, f, ins, tags=(), maxD=None, guard=None):
        self.name, self.f, self.ins, self.tags, self.maxD, self.guard = name, f, ins, set(tags), maxD, guard

    def in_domain(self, bases):
        """regularity condition of the operation at the given base points (list of ndarrays)"""
        try:
            return self.guard is None or bool(self.guard(*[np.asarray(b, dtype=float) for b in bases]))
        except Exception:
            return False

    def make_inputs(self, rng, D, P, scale=0.4, same_base=False):
        """list of (D,P)+shape coefficient arrays, base points inside each input's domain"""
        out = []
        for shape, dom in self.ins:
            x = gen.series_data(rng, D, P, shape, dom, 'random', False, scale)
            if same_base:
                for p in range(1, P):
                    x[0, p] = x[0, 0]
            out.append(x)
        return out

    def base_inputs(self, rng):
        return [gen.base_sampler(dom)(rng, tuple(shape)) for shape, dom in self.ins]


def _I(n):
    return np.eye(n)


def _sym(X):            # symmetric with separated eigenvalues around diag(0,2,4,..)
    n = X.shape[0]
    return 0.25 * (X + X.T) + np.diag(2.0 * np.arange(n))


def _spd(X):
    return A.dot(X, X.T) + _I(X.shape[0])


def _wc(X):             # well conditioned general matrix
    return 0.3 * X + 2.0 * _I(X.shape[0]) + np.diag(np.arange(X.shape[0]) * 0.5)


def _buf1(x):
    b = A.zeros(3, dtype=x)
    b[0] = x[0] * x[1]; b[1] = x[2] * x[2]; b[2] = x[0]
    return b * b


def _buf2(x):           # overwrite after read
    b = A.zeros(3, dtype=x)
    b[0] = x[0] * x[1]
    b[1] = b[0] * x[2]
    b[2] = A.sin(b[1])
    b[0] = b[2] * b[0]
    return b * b


def _buf6(x):           # an entry holding an active value is overwritten by untraced constants (python float, numpy scalar), then used
    b = A.zeros(3, dtype=x)
    b[0] = x[0] * x[1]
    b[1] = b[0] * x[2]
    b[0] = 2.5
    b[2] = x[1] * b[0] + A.sin(b[1])
    b[1] = np.float64(-0.75)
    return b * b + x


def _buf7(x):           # a slice holding active values is overwritten by a constant array
    b = A.zeros(3, dtype=x)
    b[0] = x[0] * x[1]
    b[1] = b[0] * x[2]
    b[2] = A.cos(b[1]) * x[0]
    b[:2] = np.array([1.5, -2.0])
    return b * b + x * b


def _buf8(x):           # a value obtained by operations that cancel algebraically (-(-x), x*1, x+0) is a new array: writing into it leaves x alone
    y = -(-x)
    y[0] = 10.0 * x[1]
    z = x * 1.0
    z[1] = y[0] + x[2]
    w = x + 0.0
    w[2] = z[1] * x[0]
    return x * y + z * w


def _buf10(x):          # 0 + b and sum([b]) are new values: writing into b afterwards does not change them, and vice versa
    b = A.zeros(3, dtype=x)
    b[0] = x[0] * x[1]; b[1] = x[2]; b[2] = x[1]
    s1 = 0 + b
    s2 = sum([b])
    b[1] = A.sin(x[0])
    s1[2] = x[0] * x[2]
    return s1 * s2 + b


def _buf9(x):           # the negative of a buffer is taken, the buffer overwritten, the negative negated again
    b = A.zeros(3, dtype=x)
    b[0] = x[0] * x[1]; b[1] = x[2]; b[2] = x[1]
    n = -b
    b[1] = A.sin(x[0])
    z = -n
    return z * b


def _buf11(x):          # one value is written into several slots at once (the right-hand side is broadcast), then used
    b = A.zeros(4, dtype=x)
    b[0:2] = x[0] * x[1]
    b[2:] = A.sin(x[2])
    return b * np.array([1.0, -2.0, 0.5, 3.0]) + b * b * x[1]


def _buf12(x):          # a row is written into every row of a block; a column vector into every column
    B = A.zeros((3, 3), dtype=x)
    B[0:2, :] = x * x
    B[2, :] = x
    C = A.zeros((3, 2), dtype=x)
    C[...] = A.reshape(A.exp(0.3 * x), (3, 1))
    return A.dot(B, C) * np.array([[1.0, -1.5], [0.5, 2.0], [-0.7, 0.3]])


def _buf13(x):          # a polynomial with a leading axis of length 1 is written into a longer slice
    b = A.zeros((2, 3), dtype=x)
    b[:, :] = A.reshape(x * 1.5, (1, 3))
    b[1, 1:] = x[0]
    return A.sum(b * b * np.array([[1.0, 2.0, -1.0], [0.5, -0.5, 3.0]]), axis=0)


def _buf14(x):          # a buffer is updated with an augmented assignment after a view of it was taken: the view follows (NumPy semantics)
    b = A.zeros(3, dtype=x)
    b[...] = x * 0.5
    v = b[:]
    b += x * 2.0
    w = b[1:]
    b *= 1.5
    return v * 3.0 + b + A.sum(w)


def _buf15(x):          # a function with a second result that re-uses the scratch buffer of the first one; only the first is returned
    work = A.zeros(3, dtype=x)
    work[...] = A.sin(x) + 2.0
    y = x * work * work
    work[0] = x[1] * x[2]              # recorded after the result: overwrites what y was computed from
    work[1:] = 7.5
    unused = work * 2.0
    return y


def _buf16(x):          # a zero-dimensional view of a buffer entry (index with an Ellipsis: a view in NumPy as well; buf[()] is a scalar copy there and is not used); the entry is overwritten, the view read
    b = A.zeros(3, dtype=x)
    b[...] = x * 1.5
    v = b[1, ...]
    acc = A.zeros((), dtype=x)
    acc[...] = x[0] * x[2]
    u = acc[...]
    b[1] = x[0] * x[0]
    acc[...] = x[1]
    return b * v + u * x


def _buf17(x):          # the right-hand side of an in-place write is an overlapping view of the written buffer (a shift, a flip)
    y = A.zeros(4, dtype=x)
    y[:3] = x * x
    y[3] = x[0] * x[2]
    y[1:] = y[:-1]                       # shift by one
    z = A.zeros(3, dtype=x)
    z[...] = A.sin(x) + x
    z[...] = z[::-1]                     # flip in place
    return A.sum(y * np.array([1.0, -2.0, 0.5, 3.0])) + z * x


def _buf18(x):          # a row with a leading axis of length one is stored into one slot of a block (NumPy accepts b[i] = r with r of shape (1, n))
    B = A.zeros((2, 3), dtype=x)
    r = A.reshape(x * x, (1, 3))
    B[0] = r
    B[1] = A.reshape(A.exp(0.3 * x), (1, 3)) * 2.0
    return A.sum(B * np.array([[1.0, 2.0, -1.0], [0.5, -0.5, 3.0]]), axis=0) + x


def _buf3(x):           # 2-D buffer, slices, column overwritten from other columns
    B = A.zeros((2, 3), dtype=x)
    B[0, :] = x
    B[1, :] = x * x
    B[:, 0] = B[:, 1] * B[:, 2]
    return B


def _buf4(x):           # a view of the buffer is read, then the buffer entry behind it is overwritten
    b = A.zeros(4, dtype=x)
    b[:3] = x
    b[3] = x[0] * x[2]
    v = b[1:3]
    s = A.sum(v * v)
    b[1] = s * x[1]
    return b * A.exp(0.1 * b)


def _buf5(x):           # accumulation loop y[i] = y[i-1]*x[i] (repeated overwrite of one slot)
    y = A.zeros(1, dtype=x)
    y[0] = x[0]
    for i in range(1, 3):
        y[0] = y[0] * x[i] + A.cos(y[0])
    return y


def catalogue():
    P = []
    V, M, S = (3,), (3, 3), ()

    def add(name, f, ins, tags=(), maxD=None, guard=None):
        P.append(Prog(name, f, ins, tags, maxD, guard))

    def qr_guard(X):          # full column rank of the leading square block, away from rank deficiency
        k = min(X.shape)
        r = np.linalg.qr(X[:, :k] if X.shape[0] >= X.shape[1] else X[:, :X.shape[0]])[1]
        return np.min(np.abs(np.diag(r))) >= 0.2

    def sv_guard(X):
        sv = np.linalg.svd(X, compute_uv=False)
        return sv[-1] >= 0.2 and (len(sv) < 2 or np.min(np.abs(np.diff(sv))) >= 0.1)
    # --- elementwise unary
    for nm, dom in [('exp', 'R'), ('expm1', 'R'), ('log', 'pos'), ('log1p', 'gtm1'), ('sqrt', 'pos'), ('sin', 'R'), ('cos', 'R'),
                    ('tan', 'tan'), ('square', 'R'), ('negative', 'R'), ('reciprocal', 'nz'), ('absolute', 'nz'), ('sign', 'nz'),
                    ('arcsin', 'unit'), ('arccos', 'unit'), ('arctan', 'R'), ('sinh', 'R'), ('cosh', 'R'), ('tanh', 'R')]:
        add(nm, (lambda g: lambda x: g(x))(getattr(A, nm)), [(V, dom)], ['unary'] + (['refused'] if nm in ('arcsin', 'arccos', 'arctan', 'sinh', 'cosh', 'tanh') else []))
        if nm in ('exp', 'sin', 'log', 'sqrt', 'tan'):
            add(nm + ':matrix', (lambda g: lambda x: g(x))(getattr(A, nm)), [((2, 2), dom)], ['unary'])
    for nm, dom in [('erf', 'R'), ('erfi', 'R'), ('dawsn', 'R'), ('logit', 'logit'), ('expit', 'R'), ('gammaln', 'gamma'), ('psi', 'gamma')]:
        add(nm, (lambda g: lambda x: g(x))(getattr(SP, nm)), [(V, dom)], ['unary', 'special'])
    add('polygamma1', lambda x: SP.polygamma(1, x), [(V, 'gamma')], ['unary', 'special'])
    add('hyperu', lambda x: SP.hyperu(1.5, 2.25, x), [(V, 'gamma')], ['unary', 'special'])
    # the order / the parameter given as arrays and as integers
    add('polygamma:array_order', lambda x: SP.polygamma(np.array([0, 1, 2]), x) * x, [(V, 'gamma')], ['unary', 'special'])
    add('polygamma:array_order_0d', lambda x: SP.polygamma(np.array(2), x) + SP.polygamma(np.int64(1), x), [(V, 'gamma')], ['unary', 'special'])
    add('hyperu:integer_a', lambda x: SP.hyperu(2, 1.5, x) + SP.hyperu(-2, 0.5, x), [(V, 'gamma')], ['unary', 'special'])
    add('clip_in', lambda x: SP.botched_clip(-3.0, 3.0, x), [(V, 'nz')], ['unary'])
    add('clip_out', lambda x: SP.botched_clip(-0.2, 0.2, x), [(V, 'nz')], ['unary'])
    add('neg_op', lambda x: -x, [(V, 'R')], ['unary'])
    for r, dom in [(2, 'R'), (3, 'R'), (0, 'R'), (1, 'R'), (-1, 'nz'), (-2, 'nz'), (2.5, 'pos'), (0.5, 'pos'), (-1.5, 'pos'), (np.int64(3), 'R')]:
        add('pow_%s%s' % ('np' if isinstance(r, np.integer) else '', r), (lambda r: lambda x: x ** r)(r), [(V, dom)], ['unary', 'pow'])
    # the exponent is itself a traced value
    add('pow:traced_exponent', lambda a, b: a ** b, [(V, 'pos'), (V, 'R')], ['pow', 'binary', 'nopb'])
    add('pow:traced_exponent_same_input', lambda x: (x * x + 1.5) ** x, [(V, 'R')], ['pow', 'binary', 'nopb'])
    add('pow:traced_exponent_scalar', lambda a, b: a ** b, [(V, 'pos'), (S, 'R')], ['pow', 'binary', 'bcast', 'nopb'])
    # integer powers at base points with exact zeros (polynomials are smooth there)
    for r in (1, 2, 3, np.int64(1), np.int64(2), np.int64(4)):
        add('pow_zero_base_%s%s' % ('np' if isinstance(r, np.integer) else '', int(r)), (lambda r: lambda x: x ** r)(r), [(V, 'Rzero')], ['unary', 'pow', 'zero-base'])
    # ... also when the integer exponent is spelled as a float (x ** 2.0 is the polynomial x ** 2)
    for r in (2.0, 3.0, np.float64(2.0), 1.0):
        add('pow_zero_base_float%s%s' % ('np' if isinstance(r, np.floating) else '', int(r)), (lambda r: lambda x: x ** r)(r), [(V, 'Rzero')], ['unary', 'pow', 'zero-base'])
    add('square_zero_base', lambda x: A.square(x) + x * x, [(V, 'Rzero')], ['unary', 'zero-base'])
    # elementwise programs that are also replayed with complex values (C05)
    add('real_imag_of_input', lambda x: A.real(x) * 1.5 + A.imag(x) * 0.5, [(V, 'R')], ['cplx_replay', 'nonunique'])     # imag of a real value: only meaningful for the C05 complex replays
    add('cplx:exp_sin_mul', lambda x: A.exp(0.3 * x) * A.sin(x) + x * x, [(V, 'R')], ['cplx_replay'])
    add('cplx:real_of_product', lambda x: A.real(x * x) + 2.0 * A.real(A.exp(0.2 * x)), [(V, 'R')], ['cplx_replay'])
    add('cplx:conjugate_of_input', lambda x: A.real(A.conjugate(x) * x) + A.real(A.conjugate(x * x)), [(V, 'R')], ['cplx_replay'])
    add('cplx:abs2_via_conj', lambda x: A.real(x.conj() * A.exp(0.3 * x)) + A.imag(A.conjugate(x) * 2.0), [(V, 'R')], ['cplx_replay', 'nonunique'])
    # --- binary arithmetic, broadcasting, constants on either side
    for nm, op in [('add', lambda a, b: a + b), ('sub', lambda a, b: a - b), ('mul', lambda a, b: a * b), ('div', lambda a, b: a / b)]:
        dd = 'nz' if nm == 'div' else 'R'
        add(nm, op, [(V, 'R'), (V, dd)], ['binary'])
        add(nm + ':bcast_mv', op, [((2, 3), 'R'), (V, dd)], ['binary', 'bcast'])
        add(nm + ':bcast_cols', op, [((2, 1), 'R'), ((1, 3), dd)], ['binary', 'bcast'])
        add(nm + ':bcast_scalar', op, [(V, 'R'), (S, dd)], ['binary', 'bcast'])
        add(nm + ':bcast_vm', op, [(V, 'R'), ((2, 3), dd)], ['binary', 'bcast'])
        add(nm + ':same_operand', (lambda op: lambda x: op(x, x))(op), [(V, dd)], ['binary', 'alias'])
        c = np.array([1.5, -2.0, 0.75]); C2 = np.array([[1.5, -2.0, 0.75], [0.5, 3.0, -1.25]])
        add(nm + ':const_right_scalar', (lambda op: lambda x: op(x, 2.5))(op), [(V, 'R')], ['binary', 'const'])
        add(nm + ':const_left_scalar', (lambda op: lambda x: op(2.5, x))(op), [(V, dd)], ['binary', 'const'])
        add(nm + ':const_right_array', (lambda op, c: lambda x: op(x, c))(op, c), [(V, 'R')], ['binary', 'const'])
        add(nm + ':const_left_array', (lambda op, c: lambda x: op(c, x))(op, c), [(V, dd)], ['binary', 'const'])
        add(nm + ':const_left_array_bcast', (lambda op, c: lambda x: op(c, x))(op, C2), [(V, dd)], ['binary', 'const', 'bcast'])
        add(nm + ':const_function_left', (lambda op, c: lambda x: op(_const_like(x, c), x))(op, c), [(V, dd)], ['binary', 'const', 'constnode'])
        add(nm + ':const_function_left_bcast', (lambda op, c: lambda x: op(_const_like(x, c), x))(op, C2), [(V, dd)], ['binary', 'const', 'constnode', 'bcast'])
        add(nm + ':const_function_right_bcast', (lambda op, c: lambda x: op(x, _const_like(x, c)))(op, C2 + 4.0), [(V, 'R')], ['binary', 'const', 'constnode', 'bcast'])
        add(nm + ':const_function_left_scalar_x', (lambda op, c: lambda x: op(_const_like(x, c), x))(op, c), [(S, dd)], ['binary', 'const', 'constnode', 'bcast'])
    # --- indexing, views, transposes, reshapes
    for nm, f, shp in [('x[1]', lambda x: x[1], V), ('x[-1]', lambda x: x[-1], V), ('x[1:]', lambda x: x[1:], V), ('x[::2]', lambda x: x[::2], V),
                       ('x[::-1]', lambda x: x[::-1], V), ('X[:,1]', lambda X: X[:, 1], M), ('X[0]', lambda X: X[0], M), ('X[...,0]', lambda X: X[..., 0], M),
                       ('X.T', lambda X: X.T, (2, 3)), ('X.T[0]', lambda X: X.T[0], (2, 3)), ('X[1:,::-1]', lambda X: X[1:, ::-1], M),
                       ('x[:]', lambda x: x[:], V), ('X[:]', lambda X: X[:], M), ('X[:,:]', lambda X: X[:, :], M), ('x[...]', lambda x: x[...], V),
                       ('x[np.int64]', lambda x: x[np.int64(2)], V), ('X[0,1]', lambda X: X[0, 1], M), ('X[1:][0]', lambda X: X[1:][0], M)]:
        add('index:' + nm, (lambda f: lambda x: f(x) * 1.5)(f), [(shp, 'R')], ['index'])
    # the full slice of an intermediate that is used again afterwards (and before): the slice is a view of its parent, adjoints accumulate
    add('index:full_slice_parent_used_after', lambda x: (lambda u: (lambda v: v * v * 2.0 + A.sin(u) * u)(u[:]))(x * 1.5), [(V, 'R')], ['index'])
    add('index:full_slice_parent_used_before_and_after', lambda X: (lambda U: (lambda W, V_: W * V_ + U * U)(A.exp(U), U[:]))(X * 0.5), [(M, 'R')], ['index'])
    add('index:X[[0,2]]', lambda X: X[[0, 2]] * 1.5, [(M, 'R')], ['index', 'fancy'])
    add('index:x[[2,0,0]]', lambda x: x[[2, 0, 0]] * np.array([1., 2., 3.]), [(V, 'R')], ['index', 'fancy'])
    add('reshape:contiguous', lambda X: A.reshape(X, (6,)) * np.arange(1., 7.), [((2, 3), 'R')], ['reshape'])
    add('reshape:method', lambda X: X.reshape((3, 2)) * 2.0, [((2, 3), 'R')], ['reshape'])
    add('reshape:noncontiguous', lambda X: A.reshape(X.T, (6,)) * np.arange(1., 7.), [((2, 3), 'R')], ['reshape', 'noncontig'])
    add('reshape:of_product', lambda X: A.reshape(X * X, (3, 2)), [((2, 3), 'R')], ['reshape'])
    # .T / transpose of vectors and scalars (the identity, but a node of the graph all the same)
    add('transpose:of_vector', lambda x: x.T * x + A.transpose(A.sin(x)), [(V, 'R')], ['index'])
    add('transpose:of_vector_intermediate', lambda x, B: A.dot(A.dot(B, x).T, B) + x.T, [(V, 'R'), (M, 'R')], ['index', 'binary'])
    add('transpose:of_scalar', lambda x: A.sum(x * x).T * x + (x[0] * x[1]).T, [(V, 'R')], ['index'])
    # trace of tall and wide matrices, tile with a NumPy integer count
    add('trace:of_tall_matrix', lambda x: A.trace(A.reshape(A.tile(x, 2), (3, 2)) * np.arange(1., 7.).reshape(3, 2)) * x, [(V, 'R')], ['reduction', 'index'])
    add('trace:of_wide_matrix', lambda x: A.trace(A.reshape(A.tile(x, np.int64(2)), (2, 3))) + x, [(V, 'R')], ['reduction', 'index'])
    # real / imag of real-valued intermediates that have other consumers
    add('cplx:real_of_real_value_used_again', lambda x: (lambda u: 3.0 * A.real(u) + u * u)(A.sin(x)), [(V, 'R')], [])
    add('cplx:imag_of_real_value', lambda x: (lambda u: A.imag(u) + u * u)(A.exp(0.3 * x)), [(V, 'R')], [])
    add('transpose:of_product', lambda X: A.transpose(X * X) * np.arange(1., 7.).reshape(3, 2), [((2, 3), 'R')], ['index'])
    # --- buffers
    add('buffer:write_once', _buf1, [(V, 'R')], ['buffer'])
    add('buffer:overwrite_after_read', _buf2, [(V, 'R')], ['buffer', 'overwrite'])
    add('buffer:2d_slices', _buf3, [(V, 'R')], ['buffer', 'overwrite'])
    add('buffer:view_then_overwrite', _buf4, [(V, 'R')], ['buffer', 'overwrite'])
    add('buffer:accumulate_slot', _buf5, [(V, 'R')], ['buffer', 'overwrite'])
    add('buffer:write_into_algebraic_identity_result', _buf8, [(V, 'R')], ['buffer', 'overwrite'])
    add('buffer:negated_twice_around_overwrite', _buf9, [(V, 'R')], ['buffer', 'overwrite'])
    add('buffer:zero_plus_value_is_a_new_value', _buf10, [(V, 'R')], ['buffer', 'overwrite'])
    add('buffer:one_value_into_several_slots', _buf11, [(V, 'R')], ['buffer'])
    add('buffer:row_into_block', _buf12, [(V, 'R')], ['buffer'])
    add('buffer:leading_axis_of_length_one_into_rows', _buf13, [(V, 'R')], ['buffer', 'overwrite'])
    add('buffer:augmented_assignment_seen_through_view', _buf14, [(V, 'R')], ['buffer', 'overwrite', 'augmented'])
    add('buffer:scratch_reused_after_result', _buf15, [(V, 'R')], ['buffer', 'overwrite'])
    add('buffer:zero_dimensional_views', _buf16, [(V, 'R')], ['buffer', 'overwrite'])
    add('buffer:overlapping_view_on_the_right', _buf17, [(V, 'R')], ['buffer', 'overwrite'])
    add('buffer:row_with_leading_unit_axis_into_slot', _buf18, [(V, 'R')], ['buffer', 'overwrite'])
    add('buffer:constant_overwrites_active_entry', _buf6, [(V, 'R')], ['buffer', 'overwrite', 'const'])
    add('buffer:constant_array_overwrites_slice', _buf7, [(V, 'R')], ['buffer', 'overwrite', 'const'])
    # --- reductions
    add('sum', lambda x: A.sum(x), [(V, 'R')], ['reduce'])
    add('sum:matrix', lambda X: A.sum(X), [((2, 3), 'R')], ['reduce'])
    for ax in (0, 1, -1, -2):
        add('sum:axis%d' % ax, (lambda ax: lambda X: A.sum(X, axis=ax))(ax), [((2, 3), 'R')], ['reduce', 'axis'])
    add('sum:axis1_of_3d', lambda X: A.sum(X, axis=1), [((2, 3, 2), 'R')], ['reduce', 'axis'])
    add('prod', lambda x: A.prod(x), [(V, 'nz')], ['reduce'])
    add('prod:zero_factor', lambda x: A.prod(x), [((4,), 'Rzero')], ['reduce', 'zero-base'])
    add('prod:zero_factor_in_some_directions', lambda x: A.prod(x), [((4,), 'Rzero_mixed')], ['reduce', 'zero-base'])          # exact zeros among the factors (in some directions only)
    add('trace', lambda X: A.trace(X), [(M, 'R')], ['reduce'])
    add('trace:of_view', lambda X: A.trace(X[:2, 1:]) + A.trace(X[::-1, :]), [(M, 'R')], ['reduce', 'view'])
    add('trace:of_transpose', lambda X: A.trace((X * X).T) + A.trace(X.T[1:, 1:]), [(M, 'R')], ['reduce', 'view'])
    add('sum:of_views', lambda X: A.sum(X.T[::2]) + A.sum(X[:, ::-1][1:] * X[1:]), [(M, 'R')], ['reduce', 'view'])
    add('prod:of_view', lambda X: A.prod(X[:, 1]) + A.prod(X.T[2][::-1]), [(M, 'nz')], ['reduce', 'view'])
    # --- dot / outer of every rank combination
    add('dot:vv', lambda a, b: A.dot(a, b), [(V, 'R'), (V, 'R')], ['dot'])
    add('dot:Mv', lambda a, b: A.dot(a, b), [((2, 3), 'R'), (V, 'R')], ['dot'])
    add('dot:vM', lambda a, b: A.dot(a, b), [(V, 'R'), ((3, 2), 'R')], ['dot'])
    add('dot:MM', lambda a, b: A.dot(a, b), [((2, 3), 'R'), ((3, 2), 'R')], ['dot'])
    add('dot:TM', lambda a, b: A.dot(a, b), [((2, 2, 3), 'R'), ((3, 2), 'R')], ['dot'])
    add('dot:const_left', lambda b: A.dot(np.array([[1., 2., -1.], [0.5, 0., 3.]]), b), [((3, 2), 'R')], ['dot', 'const'])
    add('dot:const_right', lambda a: A.dot(a, np.array([[1., 2.], [0.5, 0.], [-1., 3.]])), [((2, 3), 'R')], ['dot', 'const'])
    add('dot:const_right_vec', lambda a: A.dot(a, np.array([1., 2., -0.5])), [((2, 3), 'R')], ['dot', 'const'])
    add('outer', lambda a, b: A.outer(a, b), [(V, 'R'), (V, 'R')], ['dot'])
    add('outer:different_length', lambda a, b: A.outer(a, b), [(V, 'R'), ((2,), 'R')], ['dot'])
    # a constant (plain array) operand on either side
    add('outer:const_right', (lambda c: lambda a: A.outer(a, c))(np.array([1.5, -2.0, 0.25])), [(V, 'R')], ['dot', 'const'])
    add('outer:const_left', (lambda c: lambda a: A.outer(c, a))(np.array([1.5, -2.0])), [(V, 'R')], ['dot', 'const'])
    add('outer:const_both_ways', (lambda c: lambda a: A.dot(A.outer(a, c), A.outer(c, a)))(np.array([0.5, -1.0, 2.0])), [(V, 'R')], ['dot', 'const'])
    add('outer:same_operand', lambda a: A.outer(a, a), [(V, 'R')], ['dot', 'alias'])
    # --- linear algebra
    add('inv', lambda X: A.inv(_wc(X)), [(M, 'R')], ['linalg'])
    add('solve', lambda X, B: A.solve(_wc(X), B), [(M, 'R'), ((3, 2), 'R')], ['linalg'])
    add('solve:const_rhs', lambda X: A.solve(_wc(X), np.array([[1., 2.], [0., -1.], [3., 0.5]])), [(M, 'R')], ['linalg', 'const'])
    # constant matrices as they come out of LAPACK / transposes: Fortran-ordered, transposed views (the constant is kept by the graph)
    KC = np.array([[4., 1., -1.], [0.5, 3., 1.], [1., -0.5, 5.]])
    add('solve:const_A', (lambda K: lambda B: A.solve(K, B))(KC.copy()), [((3, 2), 'R')], ['linalg', 'const'])
    add('solve:const_A_fortran', (lambda K: lambda B: A.solve(K, B))(np.asfortranarray(KC)), [((3, 2), 'R')], ['linalg', 'const', 'layout'])
    add('solve:const_A_transposed_vec', (lambda K: lambda b: A.solve(K.T, b))(KC.copy()), [((3,), 'R')], ['linalg', 'const', 'layout', 'nopb'])          # (a 1-D right hand side is refused by solve itself)
    add('dot:const_left_fortran', (lambda K: lambda b: A.dot(K, b))(np.asfortranarray(KC)), [((3, 2), 'R')], ['dot', 'const', 'layout'])
    add('det', lambda X: A.det(_wc(X)), [(M, 'R')], ['linalg'])
    add('det:pivoting', lambda X: A.det(_wc(X)[::-1]), [(M, 'R')], ['linalg', 'pivot'])
    add('logdet', lambda X: A.logdet(_spd(X)), [(M, 'R')], ['linalg'])
    # determinant outside the floating-point range although its logarithm is an ordinary number
    add('logdet:det_underflows', lambda X: A.logdet(1e-120 * _spd(X)), [(M, 'R')], ['linalg', 'scale'])
    add('logdet:det_overflows', lambda X: A.logdet(1e+120 * _spd(X)), [(M, 'R')], ['linalg', 'scale'])
    add('inv:tiny_scale', lambda X: 1e-90 * A.inv(1e-90 * _wc(X)), [(M, 'R')], ['linalg', 'scale'])
    add('solve:huge_scale', lambda X, B: A.solve(1e+90 * _wc(X), 1e+90 * B), [(M, 'R'), ((3, 2), 'R')], ['linalg', 'scale'])
    add('diag:vector', lambda x: A.diag(x) * np.arange(1., 10.).reshape(3, 3), [(V, 'R')], ['linalg'])
    add('diag:matrix', lambda X: A.diag(X) * np.array([1., -2., 3.]), [(M, 'R')], ['linalg'])
    add('diag:tall', lambda X: A.diag(X) * np.array([1., -2.]), [((3, 2), 'R')], ['linalg'])
    for u in 'FLU':
        add('symvec:' + u, (lambda u: lambda X: A.symvec(X + X.T, u))(u), [(M, 'R')], ['linalg'])
        add('symvec:nonsymmetric:' + u, (lambda u: lambda X: A.symvec(X, u))(u), [(M, 'R')], ['linalg'])
        add('symvec:nonsymmetric:kw:' + u, (lambda u: lambda X: A.symvec(X, UPLO=u))(u), [(M, 'R')], ['linalg'])
    add('vecsym', lambda v: A.vecsym(v) * np.arange(1., 10.).reshape(3, 3), [((6,), 'R')], ['linalg'])
    add('tile:int', lambda x: A.tile(x, 2) * np.arange(1., 7.), [(V, 'R')], ['linalg', 'tile'])
    add('tile:tuple', lambda X: A.tile(X, (2, 1)) * 1.5, [((2, 3), 'R')], ['linalg', 'tile'])
    add('tile:matrix_int', lambda X: A.tile(X, 2) * 1.5, [((2, 3), 'R')], ['linalg', 'tile'])
    add('tile:matrix_short_tuple', lambda X: A.tile(X, (3,)) * 1.5, [((2, 3), 'R')], ['linalg', 'tile'])
    add('tile:rank_raising', lambda x: A.tile(x, (2, 2)) * 1.5, [(V, 'R')], ['linalg', 'tile'])
    add('tile:rank3_int', lambda X: A.tile(X, 2) * 1.5, [((2, 1, 2), 'R')], ['linalg', 'tile'])
    add('tile:scalar', lambda x: A.tile(x, 3) * np.arange(1., 4.), [(S, 'R')], ['linalg', 'tile'])
    add('triu', lambda X: A.triu(X), [(M, 'R')], ['linalg', 'nopb'])
    # --- raw matrix inputs whose structure decisions (pivot rows) differ from call to call, i.e. between directions
    add('det:raw', lambda X: A.det(X), [(M, 'wcperm')], ['linalg', 'pivot', 'structure'])
    add('logdet:raw', lambda X: A.logdet(X), [(M, 'wcperm_pos')], ['linalg', 'pivot', 'structure'])
    add('inv:raw', lambda X: A.inv(X), [(M, 'wcperm')], ['linalg', 'pivot', 'structure'])
    add('solve:raw', lambda X, B: A.solve(X, B), [(M, 'wcperm'), ((3, 2), 'R')], ['linalg', 'pivot', 'structure'])
    add('lu:raw:L', lambda X: A.lu(X)[1], [(M, 'wcperm')], ['fact', 'pivot', 'structure'])
    add('lu:raw:U', lambda X: A.lu(X)[2], [(M, 'wcperm')], ['fact', 'pivot', 'structure'])
    # eigenvectors where some directions have exactly repeated eigenvalues (not uniquely defined: only for the C11 split)
    add('eigh:raw:vectors', lambda X: A.eigh(0.5 * (X + X.T))[1], [(M, 'symrep')], ['fact', 'structure', 'nonunique'])
    add('eigh:raw:values', lambda X: A.eigh(0.5 * (X + X.T))[0], [(M, 'symrep')], ['fact', 'structure', 'nonunique'])
    # --- factorizations: uniquely defined outputs
    for shp, tag in [((3, 3), 'square'), ((4, 2), 'tall'), ((2, 3), 'wide')]:
        add('qr:Q:' + tag, lambda X: A.qr(X)[0], [(shp, 'R')], ['fact'], guard=qr_guard)
        add('qr:R:' + tag, lambda X: A.qr(X)[1], [(shp, 'R')], ['fact'], guard=qr_guard)
        add('qr:QR:' + tag, lambda X: _both(A.qr(X)), [(shp, 'R')], ['fact'], guard=qr_guard)
    add('qr_full:Q', lambda X: A.qr_full(X)[0][:, :2], [((4, 2), 'R')], ['fact'], guard=qr_guard)       # only the first N columns are unique
    add('qr_full:R', lambda X: A.qr_full(X)[1], [((4, 2), 'R')], ['fact'], guard=qr_guard)
    add('cholesky', lambda X: A.cholesky(_spd(X)), [(M, 'R')], ['fact'])
    # the same output of one factorization fetched more than once (helper functions unpacking the result object again)
    def _twice_qr(X):
        F = A.qr(_wc(X))
        Ra = F[1]; Rb = F[1]; Qa = F[0]
        return A.dot(Ra.T, Rb) + A.dot(Qa.T, F[0])
    add('qr:outputs_fetched_twice', _twice_qr, [(M, 'R')], ['fact'])

    def _twice_eigh(X):
        F = A.eigh(_sym(X))
        return A.dot(F[1] * F[0], F[1].T) + A.sum(F[0]) * F[1]
    add('eigh:outputs_fetched_twice', _twice_eigh, [(M, 'R')], ['fact', 'eighQ'])
    add('solve:transposed_matrix', lambda X, B: A.solve(_wc(X).T, B), [(M, 'R'), ((3, 2), 'R')], ['linalg', 'view'])
    add('solve:transposed_input', lambda X, B: A.solve((X + 3.0 * _I(3)).T, B), [(M, 'unit'), ((3, 2), 'R')], ['linalg', 'view'])
    add('inv:of_transpose', lambda X: A.inv(_wc(X).T), [(M, 'R')], ['linalg', 'view'])
    add('solve:transposed_matrix_one_input', lambda X: A.solve(_wc(X).T, X[:, :2] * 1.5), [(M, 'R')], ['linalg', 'view'])
    add('lu:L', lambda X: A.lu(_wc(X))[1], [(M, 'R')], ['fact'])
    add('lu:U', lambda X: A.lu(_wc(X))[2], [(M, 'R')], ['fact'])
    add('lu:LU:pivoting', lambda X: _lu_both(A.lu(_wc(X)[::-1])), [(M, 'R')], ['fact', 'pivot'])
    add('eigh:values', lambda X: A.eigh(_sym(X))[0], [(M, 'R')], ['fact'])
    add('eigh:vectors', lambda X: A.eigh(_sym(X))[1], [(M, 'R')], ['fact', 'eighQ'])
    add('svd:values', lambda X: A.svd(_wc(X))[1], [(M, 'R')], ['fact'])
    add('svd:values:wide', lambda X: A.svd(X)[1], [((2, 3), 'R')], ['fact'], guard=sv_guard)
    add('eig:values', lambda X: A.real(A.eig(_sym(X) + 0.1 * X)[0]), [(M, 'R')], ['fact', 'eig'], maxD=2)
    # --- fft with real inputs and outputs
    add('fft:real', lambda x: A.real(A.fft.fft(x)), [((4,), 'R')], ['fft'])
    add('fft:imag', lambda x: A.imag(A.fft.fft(x)), [((4,), 'R')], ['fft'])
    add('ifft:real_of_product', lambda x: A.real(A.fft.ifft(A.fft.fft(x) * A.fft.fft(x))), [((4,), 'R')], ['fft'])
    add('fft:axis0', lambda X: A.real(A.fft.fft(X, axis=0)), [((3, 2), 'R')], ['fft', 'kwargs'])
    add('ifft:axis0', lambda X: A.imag(A.fft.ifft(X, axis=0)) + A.real(A.fft.ifft(X, axis=0)), [((3, 2), 'R')], ['fft', 'kwargs'])
    add('conjugate', lambda x: A.real(A.conjugate(A.fft.fft(x)) * A.fft.fft(x)), [((4,), 'R')], ['fft'])
    # a complex intermediate with several consumers: its real part, its imaginary part and arithmetic on it, in every order
    add('fft:imag_then_real_of_square', lambda x: (lambda z: A.imag(z) * A.imag(z) + A.real(z * z))(A.fft.fft(x)), [((4,), 'R')], ['fft'])
    add('fft:real_of_square_then_imag', lambda x: (lambda z: A.real(z * z) + A.imag(z) * A.imag(z))(A.fft.fft(x)), [((4,), 'R')], ['fft'])
    add('fft:imag_twice', lambda x: (lambda z: A.imag(z) * A.real(z) + 2.0 * A.imag(z))(A.fft.fft(x)), [((4,), 'R')], ['fft'])
    add('fft:real_twice_and_imag', lambda x: (lambda z: A.real(z) * A.real(z) + A.real(z) - A.imag(z * z) + A.imag(z))(A.fft.fft(x)), [((4,), 'R')], ['fft'])
    # real and complex operands mixed in one operation (the real one on either side)
    add('fft:spectrum_minus_signal', lambda x: (lambda w: A.real(w * w) + A.imag(w))(A.fft.fft(x) - x), [((4,), 'R')], ['fft'])
    add('fft:signal_minus_spectrum', lambda x: (lambda w: A.real(w * w) + A.imag(w))(x - A.fft.fft(x)), [((4,), 'R')], ['fft'])
    add('fft:signal_times_spectrum', lambda x: A.real(x * A.fft.fft(x)) + A.imag(A.fft.fft(x) * x), [((4,), 'R')], ['fft'])
    add('fft:spectrum_over_signal', lambda x: A.real(A.fft.fft(x) / (x + 3.0)) + A.imag((x + 3.0) / (A.fft.fft(x) + 9.0)), [((4,), 'unit')], ['fft'])

    def _inv_of_spectrum(x):
        z = A.fft.fft(x)
        Mz = A.zeros((2, 2), dtype=z)
        Mz[0, 0] = z[0] + 6.0; Mz[0, 1] = z[1]; Mz[1, 0] = z[2]; Mz[1, 1] = z[3] + 7.0
        return A.real(A.inv(Mz)) + A.imag(A.inv(Mz))
    add('fft:inv_of_complex_matrix', _inv_of_spectrum, [((4,), 'unit')], ['fft', 'linalg'])

    def _solve_with_spectrum(x):
        z = A.fft.fft(x)
        Mz = A.zeros((2, 2), dtype=z)
        Mz[0, 0] = z[0] + 6.0; Mz[0, 1] = z[1]; Mz[1, 0] = z[2]; Mz[1, 1] = z[3] + 7.0
        b = A.zeros((2, 1), dtype=z)
        b[0, 0] = z[1]; b[1, 0] = z[2] + 1.0
        return A.real(A.solve(Mz, b)) - A.imag(A.solve(Mz, b))
    add('fft:solve_with_complex_matrix', _solve_with_spectrum, [((4,), 'unit')], ['fft', 'linalg'])
    def _solve_complex_matrix_real_rhs(x):
        z = A.fft.fft(x)
        Mz = A.zeros((2, 2), dtype=z)
        Mz[0, 0] = z[0] + 6.0; Mz[0, 1] = z[1]; Mz[1, 0] = z[2]; Mz[1, 1] = z[3] + 7.0
        b = A.zeros((2, 1), dtype=x)
        b[0, 0] = x[0]; b[1, 0] = x[1] * x[2]
        return A.real(A.solve(Mz, b)) + A.imag(A.solve(Mz, b))
    add('fft:solve_complex_matrix_real_rhs', _solve_complex_matrix_real_rhs, [((4,), 'unit')], ['fft', 'linalg'])

    def _solve_real_matrix_complex_rhs(x):
        z = A.fft.fft(x)
        Mr = A.zeros((2, 2), dtype=x)
        Mr[0, 0] = x[0] + 6.0; Mr[0, 1] = x[1]; Mr[1, 0] = x[2]; Mr[1, 1] = x[3] + 7.0
        b = A.zeros((2, 1), dtype=z)
        b[0, 0] = z[1]; b[1, 0] = z[2]
        return A.real(A.solve(Mr, b)) + A.imag(A.solve(Mr, b))
    add('fft:solve_real_matrix_complex_rhs', _solve_real_matrix_complex_rhs, [((4,), 'unit')], ['fft', 'linalg'])
    add('fft:dot_of_spectra', lambda x: (lambda z: A.real(A.dot(z, z)) + A.imag(A.dot(z, x)))(A.fft.fft(x)), [((4,), 'R')], ['fft'])
    # elementary functions and arithmetic applied to complex intermediates of a real program
    for nm, g in [('sqrt', lambda z: A.sqrt(z + 9.0)), ('exp', lambda z: A.exp(0.2 * z)), ('log', lambda z: A.log(z + 9.0)), ('sin', lambda z: A.sin(0.3 * z)),
                  ('cos', lambda z: A.cos(0.3 * z)), ('square', lambda z: A.square(z)), ('reciprocal', lambda z: A.reciprocal(z + 9.0)), ('pow2.5', lambda z: (z + 9.0) ** 2.5),
                  ('pow3', lambda z: z ** 3), ('div', lambda z: z / (z + 9.0)), ('tan', lambda z: A.tan(0.1 * z)), ('expm1', lambda z: A.expm1(0.2 * z)), ('log1p', lambda z: A.log1p(0.1 * z))]:
        add('fft:%s_of_spectrum' % nm, (lambda g: lambda x: A.real(A.fft.ifft(g(A.fft.fft(x)))) + A.imag(g(A.fft.fft(x))))(g), [((4,), 'small')], ['fft', 'complex-intermediate'])
    # magnitude of a complex intermediate: |z(t)| = sqrt(z conj z), real-valued and smooth away from z_0 = 0
    add('fft:magnitude_of_spectrum', lambda x: A.absolute(A.fft.fft(x) + 5.0), [((4,), 'unit')], ['fft', 'complex-intermediate'])
    add('fft:magnitude_times_phase_part', lambda x: (lambda z: A.absolute(z) * A.imag(z) + A.real(z) / A.absolute(z))(A.fft.fft(x) + (5.0 + 1.0j)), [((4,), 'unit')],
        ['fft', 'complex-intermediate'])
    # transforms padded with zeros / truncated (n different from the length of the axis): only the first min(n, N) entries take part
    add('fft:n_one', lambda x: A.real(A.fft.fft(x, n=1)) * 2.0 + A.imag(A.fft.fft(x * x, n=1)), [((4,), 'R')], ['fft', 'kwargs'])
    add('fft:n_shorter', lambda x: A.real(A.fft.fft(x, n=3)) - A.imag(A.fft.fft(x, n=2))[1] , [((4,), 'R')], ['fft', 'kwargs'])
    add('fft:n_longer', lambda x: A.real(A.fft.fft(x, n=6)) + A.imag(A.fft.fft(x, n=6)), [((4,), 'R')], ['fft', 'kwargs'])
    add('ifft:n_shorter_axis0', lambda X: A.real(A.fft.ifft(X, n=2, axis=0)) + A.imag(A.fft.ifft(X, n=2, axis=0)), [((3, 2), 'R')], ['fft', 'kwargs'])
    add('ifft:n_longer', lambda x: A.real(A.fft.ifft(A.fft.fft(x, n=5), n=7)), [((4,), 'R')], ['fft', 'kwargs'])
    # a complex constant right hand side with a traced real matrix
    add('solve:traced_A_complex_const_rhs', (lambda B: lambda X: (lambda Y: A.real(Y) * A.imag(Y))(A.solve(_wc(X), B)))(np.array([[1. + 2.j, 0.5], [0. - 1.j, -1.], [3., 0.5 + 0.5j]])),
        [(M, 'R')], ['linalg', 'const', 'complex-intermediate'])
    # a constant numerator that contains exact zeros (an identity matrix, a mask, the number 0) over a traced value
    add('div:identity_over_traced', lambda X: np.eye(3) / X, [(M, 'nz')], ['binary', 'const'])
    add('div:mask_over_traced', (lambda c: lambda x: c / x + x)(np.array([1.0, 0.0, 2.0])), [(V, 'nz')], ['binary', 'const'])
    add('div:zero_over_traced', lambda x: 0.0 / x + 0 / (x * x) + x, [(V, 'nz')], ['binary', 'const'])
    # a traced exponent whose value is an integer, on base values of either sign (NumPy: (-2.0) ** 3.0 = -8.0)
    add('pow:traced_integer_valued_exponent', lambda a, b: a ** (b * 0.0 + 3.0) + a ** (b - b + 2.0), [(V, 'nz'), (V, 'R')], ['pow', 'binary', 'nopb', 'ndarray-only-values'])
    # the builtin abs() on traced values, real and complex
    add('abs:builtin', lambda x: abs(x) * x + abs(x - 0.1), [(V, 'nz')], ['unary', 'piecewise'])
    add('fft:builtin_abs_of_spectrum', lambda x: abs(A.fft.fft(x) + 5.0), [((4,), 'unit')], ['fft', 'complex-intermediate'])
    add('fft:matrix_default_axis', lambda X: A.real(A.fft.fft(X)) - A.imag(A.fft.fft(X)), [((3, 2), 'R')], ['fft'])
    add('fft:axis-1', lambda X: A.real(A.fft.fft(X, axis=-1)) + A.imag(A.fft.fft(X, axis=-1)), [((3, 4), 'R')], ['fft', 'kwargs'])
    add('fft:axis1', lambda X: A.real(A.fft.fft(X, axis=1)), [((2, 3), 'R')], ['fft', 'kwargs'])
    add('ifft:axis-2', lambda X: A.real(A.fft.ifft(X, axis=-2)) + A.imag(A.fft.ifft(X, axis=-2)), [((3, 2), 'R')], ['fft', 'kwargs'])
    add('fft:axis1_of_3d', lambda X: A.imag(A.fft.fft(X, axis=1)), [((2, 3, 2), 'R')], ['fft', 'kwargs'])
    # --- zeros / ones with traced dtype
    add('ones_like', lambda x: A.ones_like(x) * x + A.zeros_like(x), [(V, 'R')], ['construct', 'refused'])
    add('ones_shape', lambda x: A.ones((2, 3), dtype=x) * x, [(V, 'R')], ['construct', 'refused'])
    # --- degenerate extents and higher ranks of the elementwise / reduction / product operations
    alt = [(1,), (), (2, 1, 2), (1, 3)]
    k = 0
    for pr in list(P):
        if 'unary' in pr.tags and 'refused' not in pr.tags and len(pr.ins) == 1 and pr.ins[0][0] == V and ':' not in pr.name:
            shp = alt[k % 4]; k += 1
            add('%s@%s' % (pr.name, 'x'.join(map(str, shp)) or 'scalar'), pr.f, [(shp, pr.ins[0][1])], list(pr.tags) + ['shapevar'], pr.maxD, pr.guard)
    for nm, op in [('add', lambda a, b: a + b), ('sub', lambda a, b: a - b), ('mul', lambda a, b: a * b), ('div', lambda a, b: a / b)]:
        dd = 'nz' if nm == 'div' else 'R'
        add(nm + '@1', op, [((1,), 'R'), ((1,), dd)], ['binary', 'shapevar'])
        add(nm + ':bcast_1_vs_n', op, [((1,), 'R'), (V, dd)], ['binary', 'bcast', 'shapevar'])
        add(nm + ':bcast_n_vs_1', op, [(V, 'R'), ((1,), dd)], ['binary', 'bcast', 'shapevar'])
        add(nm + ':bcast_1n_n1', op, [((1, 3), 'R'), ((3, 1), dd)], ['binary', 'bcast', 'shapevar'])
        add(nm + ':bcast_rank3', op, [((2, 1, 2), 'R'), ((3, 1), dd)], ['binary', 'bcast', 'shapevar'])
        add(nm + ':bcast_rank3_scalar', op, [((2, 1, 2), 'R'), (S, dd)], ['binary', 'bcast', 'shapevar'])
    add('sum@1', lambda x: A.sum(x), [((1,), 'R')], ['reduce', 'shapevar'])
    add('sum@1x1', lambda X: A.sum(X), [((1, 1), 'R')], ['reduce', 'shapevar'])
    add('sum:axis0@1x3', lambda X: A.sum(X, axis=0), [((1, 3), 'R')], ['reduce', 'axis', 'shapevar'])
    add('sum:axis-1@3x1', lambda X: A.sum(X, axis=-1), [((3, 1), 'R')], ['reduce', 'axis', 'shapevar'])
    add('sum:rank3', lambda X: A.sum(X), [((2, 1, 2), 'R')], ['reduce', 'shapevar'])
    add('sum:axis0_of_3d', lambda X: A.sum(X, axis=0), [((2, 3, 2), 'R')], ['reduce', 'axis', 'shapevar'])
    add('sum:axis-1_of_3d', lambda X: A.sum(X, axis=-1), [((2, 3, 2), 'R')], ['reduce', 'axis', 'shapevar'])
    # several axes at once, as numpy.sum accepts them (the reverse sweep has to restore every collapsed axis)
    add('sum:axes(0,2)_of_3d', lambda X: A.sum(X * X, axis=(0, 2)), [((2, 3, 2), 'R')], ['reduce', 'axis', 'shapevar'])
    add('sum:axes(-1,0)_of_3d', lambda X: A.sum(X, axis=(-1, 0)) * A.sum(X, axis=(0, 2)), [((2, 3, 2), 'R')], ['reduce', 'axis', 'shapevar'])
    add('sum:axes(1,)_of_2d', lambda X: A.sum(A.sin(X), axis=(1,)), [((2, 3), 'R')], ['reduce', 'axis', 'shapevar'])
    add('sum:axes(0,1)_of_2d', lambda X: A.sum(X * X, axis=(0, 1)), [((2, 3), 'R')], ['reduce', 'axis', 'shapevar'])
    add('prod@1', lambda x: A.prod(x), [((1,), 'nz')], ['reduce', 'shapevar'])
    add('trace@1x1', lambda X: A.trace(X), [((1, 1), 'R')], ['reduce', 'shapevar'])
    add('dot:vv@1', lambda a, b: A.dot(a, b), [((1,), 'R'), ((1,), 'R')], ['dot', 'shapevar'])
    add('dot:row_col', lambda a, b: A.dot(a, b), [((1, 3), 'R'), ((3, 1), 'R')], ['dot', 'shapevar'])
    add('dot:col_row', lambda a, b: A.dot(a, b), [((3, 1), 'R'), ((1, 3), 'R')], ['dot', 'shapevar'])
    add('dot:row_v', lambda a, b: A.dot(a, b), [((1, 3), 'R'), (V, 'R')], ['dot', 'shapevar'])
    add('outer@1', lambda a, b: A.outer(a, b), [((1,), 'R'), (V, 'R')], ['dot', 'shapevar'])
    add('inv@1x1', lambda X: A.inv(X + 3.0), [((1, 1), 'pos')], ['linalg', 'shapevar'])
    add('solve@1x1', lambda X, B: A.solve(X + 3.0, B), [((1, 1), 'pos'), ((1, 2), 'R')], ['linalg', 'shapevar'])
    add('det@1x1', lambda X: A.det(X + 3.0), [((1, 1), 'pos')], ['linalg', 'shapevar'])
    add('index:x[0]@1', lambda x: x[0] * 1.5, [((1,), 'R')], ['index', 'shapevar'])
    add('index:X[0]@1x3', lambda X: X[0] * 1.5, [((1, 3), 'R')], ['index', 'shapevar'])
    add('index:X[:,0]@3x1', lambda X: X[:, 0] * 1.5, [((3, 1), 'R')], ['index', 'shapevar'])
    add('index:X[1,:,0]@rank3', lambda X: X[1, :, 0] * 1.5, [((2, 3, 2), 'R')], ['index', 'shapevar'])
    add('index:X[...,1]@rank3', lambda X: X[..., 1] * 1.5, [((2, 3, 2), 'R')], ['index', 'shapevar'])
    add('X.T@rank3', lambda X: X.T * 1.5, [((2, 3, 2), 'R')], ['index', 'shapevar'])
    add('reshape:to_scalar', lambda x: A.reshape(x, ()) * 2.0, [((1,), 'R')], ['reshape', 'shapevar'])
    add('reshape:rank3', lambda X: A.reshape(X, (3, 4)) * 2.0, [((2, 3, 2), 'R')], ['reshape', 'shapevar'])
    return P


def _both(t):
    a, b = t[0], t[1]
    return A.sum(a * a) * 0.5 + A.sum(b) * 1.0 + A.sum(a) * A.sum(b * b) * 0.1


def _lu_both(t):
    return _both((t[1], t[2]))


def _const_like(x, c):
    """a constant that enters the graph as its own node when recording (Function(ndarray))"""
    if isinstance(x, Function):
        return Function(np.array(c, dtype=float))
    return np.array(c, dtype=float)


_CAT = None


def cat():
    global _CAT
    if _CAT is None:
        _CAT = catalogue()
    return _CAT


def by_name(name):
    for p in cat():
        if p.name == name:
            return p
    raise KeyError(name)


# ------------------------------------------------------------------------------------------------------
# random straight-line compositions
# ------------------------------------------------------------------------------------------------------

UN_SAFE = [('exp', lambda v: A.exp(0.3 * v)), ('sin', A.sin), ('cos', A.cos), ('tanh_like', lambda v: A.sin(v) * A.cos(v)),
           ('log', lambda v: A.log(v * v + 1.5)), ('sqrt', lambda v: A.sqrt(v * v + 0.7)), ('square', A.square), ('recip', lambda v: A.reciprocal(v * v + 1.0)),
           ('pow3', lambda v: v ** 3), ('pow2.5', lambda v: (v * v + 0.5) ** 2.5), ('pow-2', lambda v: (v * v + 1.0) ** -2), ('erf', SP.erf), ('expit', SP.expit),
           ('neg', lambda v: -v), ('abs', lambda v: A.absolute(v * v + 0.3)), ('expm1', lambda v: A.expm1(0.3 * v)), ('log1p', lambda v: A.log1p(v * v)),
           ('tan', lambda v: A.tan(0.4 * A.sin(v)))]


def random_program(rng, length, out_kind='any', allow=('unary', 'binary', 'index', 'reduce', 'dot', 'linalg', 'buffer', 'fact')):
    """returns (description list, callable f(x) with x of shape (3,)); values are typed: 's' scalar, 'v' vector(3), 'm' matrix(3,3)"""
    steps = []
    kinds = ['v']       # value 0 = the input vector

    def pick(kind):
        idx = [i for i, k in enumerate(kinds) if k == kind]
        return int(rng.choice(idx)) if idx else None
    for _ in range(length):
        cat_ = str(rng.choice(list(allow)))
        if cat_ == 'unary':
            src = int(rng.integers(len(kinds))); u = int(rng.integers(len(UN_SAFE)))
            steps.append(('un', src, u)); kinds.append(kinds[src])
        elif cat_ == 'binary':
            a = int(rng.integers(len(kinds))); b = int(rng.integers(len(kinds)))
            op = str(rng.choice(['add', 'sub', 'mul', 'div']))
            ka, kb = kinds[a], kinds[b]
            if {ka, kb} == {'v', 'm'} or ka == kb or 's' in (ka, kb):
                k = 'm' if 'm' in (ka, kb) else ('v' if 'v' in (ka, kb) else 's')
                steps.append(('bin', a, b, op)); kinds.append(k)
        elif cat_ == 'const':
            a = int(rng.integers(len(kinds)))
            steps.append(('const', a, str(rng.choice(['add_r', 'mul_l', 'sub_l', 'div_l', 'arr_mul'])), float(np.round(rng.uniform(0.5, 2.5), 2)))); kinds.append(kinds[a])
        elif cat_ == 'index':
            a = pick('v') if rng.random() < 0.6 else pick('m')
            if a is None:
                continue
            if kinds[a] == 'v':
                w = str(rng.choice(['v[i]', 'v[::-1]', 'v[1:]+pad']))
                steps.append(('idx', a, w, int(rng.integers(3)))); kinds.append('s' if w == 'v[i]' else 'v')
            else:
                w = str(rng.choice(['m[i]', 'm[:,j]', 'm.T', 'm[i,j]', 'diag(m)', 'm.T.reshape']))
                steps.append(('idx', a, w, int(rng.integers(3)))); kinds.append({'m[i]': 'v', 'm[:,j]': 'v', 'm.T': 'm', 'm[i,j]': 's', 'diag(m)': 'v', 'm.T.reshape': 'm'}[w])
        elif cat_ == 'reduce':
            a = int(rng.integers(len(kinds)))
            if kinds[a] == 's':
                continue
            w = str(rng.choice(['sum', 'sum0', 'sum-1', 'trace', 'prod'])) if kinds[a] == 'm' else str(rng.choice(['sum', 'prod']))
            steps.append(('red', a, w)); kinds.append('v' if w in ('sum0', 'sum-1') else 's')
        elif cat_ == 'dot':
            a, b = pick('v'), pick('m')
            w = str(rng.choice(['outer', 'vv', 'Mv', 'vM', 'MM']))
            if w in ('Mv', 'vM', 'MM') and b is None:
                w = 'outer'
            steps.append(('dot', a, b, w)); kinds.append({'outer': 'm', 'vv': 's', 'Mv': 'v', 'vM': 'v', 'MM': 'm'}[w])
        elif cat_ == 'linalg':
            b = pick('m')
            if b is None:
                continue
            w = str(rng.choice(['inv', 'det', 'logdet', 'solve_v', 'trace']))
            steps.append(('lin', b, w, pick('v'))); kinds.append({'inv': 'm', 'det': 's', 'logdet': 's', 'solve_v': 'v', 'trace': 's'}[w])
        elif cat_ == 'fact':
            b = pick('m')
            if b is None:
                continue
            w = str(rng.choice(['qrR', 'qrQ', 'chol', 'eighl', 'svds', 'luU']))
            steps.append(('fact', b, w)); kinds.append('v' if w in ('eighl', 'svds') else 'm')
        elif cat_ == 'buffer':
            a = pick('v')
            w = str(rng.choice(['write_once', 'overwrite', 'slot']))
            steps.append(('buf', a, w)); kinds.append('v')
    outs = [i for i in range(len(kinds))]
    desc = {'steps': steps, 'kinds': kinds}
    return desc, compile_program(desc, out_kind)


def _guard_m(m):
    """well-conditioned matrix from an arbitrary matrix value: squash entries, add a dominant diagonal"""
    return 0.5 * A.sin(m) + np.diag([2.0, 2.5, 3.0])


def compile_program(desc, out_kind='vector'):
    steps, kinds = desc['steps'], desc['kinds']

    def f(x, _peak=None):
        vals = [x]
        for st in steps:
            t = st[0]
            if t == 'un':
                vals.append(UN_SAFE[st[2]][1](vals[st[1]]))
            elif t == 'bin':
                a, b = vals[st[1]], vals[st[2]]
                op = st[3]
                if op == 'add':
                    r = a + b
                elif op == 'sub':
                    r = a - b
                elif op == 'mul':
                    r = a * b
                else:
                    r = a / (b * b + 1.0)
                vals.append(r)
            elif t == 'const':
                a, w, c = vals[st[1]], st[2], st[3]
                r = {'add_r': lambda: a + c, 'mul_l': lambda: c * a, 'sub_l': lambda: c - a, 'div_l': lambda: c / (a * a + 1.0),
                     'arr_mul': lambda: a * (c * np.ones(np.shape(a) if not hasattr(a, 'shape') else a.shape))}[w]()
                vals.append(r)
            elif t == 'idx':
                a, w, i = vals[st[1]], st[2], st[3]
                if w == 'v[i]':
                    r = a[i]
                elif w == 'v[::-1]':
                    r = a[::-1]
                elif w == 'v[1:]+pad':
                    b = A.zeros(3, dtype=a); b[:2] = a[1:]; b[2] = a[0] * a[1]; r = b
                elif w == 'm[i]':
                    r = a[i]
                elif w == 'm[:,j]':
                    r = a[:, i]
                elif w == 'm.T':
                    r = a.T
                elif w == 'm[i,j]':
                    r = a[i, (i + 1) % 3]
                elif w == 'diag(m)':
                    r = A.diag(a)
                else:
                    r = A.reshape(a.T, (3, 3))
                vals.append(r)
            elif t == 'red':
                a, w = vals[st[1]], st[2]
                r = {'sum': lambda: A.sum(a), 'sum0': lambda: A.sum(a, axis=0), 'sum-1': lambda: A.sum(a, axis=-1), 'trace': lambda: A.trace(a),
                     'prod': lambda: A.prod(A.reshape(A.sin(a) + 2.0, (int(np.prod(a.shape)),)))}[w]()
                vals.append(r)
            elif t == 'dot':
                a = vals[st[1]] if st[1] is not None else x
                b = vals[st[2]] if st[2] is not None else None
                w = st[3]
                r = {'outer': lambda: A.outer(a, x), 'vv': lambda: A.dot(a, x), 'Mv': lambda: A.dot(b, a), 'vM': lambda: A.dot(a, b), 'MM': lambda: A.dot(b, b.T)}[w]()
                vals.append(r)
            elif t == 'lin':
                m, w = _guard_m(vals[st[1]]), st[2]
                v = vals[st[3]] if st[3] is not None else x
                if w == 'inv':
                    r = A.inv(m)
                elif w == 'det':
                    r = A.det(m)
                elif w == 'logdet':
                    r = A.logdet(A.dot(m, m.T) + np.eye(3))
                elif w == 'solve_v':
                    r = A.reshape(A.solve(m, A.reshape(v, (3, 1))), (3,))
                else:
                    r = A.trace(m)
                vals.append(r)
            elif t == 'fact':
                m, w = _guard_m(vals[st[1]]), st[2]
                if w == 'qrR':
                    r = A.qr(m)[1]
                elif w == 'qrQ':
                    r = A.qr(m)[0]
                elif w == 'chol':
                    r = A.cholesky(A.dot(m, m.T) + np.eye(3))
                elif w == 'eighl':
                    r = A.eigh(0.1 * (m + m.T) + np.diag([0., 2., 4.]))[0]
                elif w == 'svds':
                    r = A.svd(0.2 * m + np.diag([3., 2., 1.]))[1]
                else:
                    r = A.lu(m)[2]
                vals.append(r)
            elif t == 'buf':
                a, w = (vals[st[1]] if st[1] is not None else x), st[2]
                r = {'write_once': _buf1, 'overwrite': _buf2, 'slot': lambda v: _slot3(v)}[w](a)
                vals.append(r)
        if _peak is not None:
            for v in vals:
                a_ = np.abs(np.asarray(v.data if isinstance(v, UTPM) else v, dtype=float))
                _peak.append(float(np.max(a_)) if a_.size else 0.0)
        # output: combine the last values so that every step contributes
        last = vals[-1]
        acc = None
        for v, k in zip(vals[1:], kinds[1:]):
            s = v if k == 's' else A.sum(v)
            acc = s if acc is None else acc + 0.5 * s
        if out_kind == 'scalar':
            return acc if acc is not None else A.sum(x * x)
        # vector output of length 3: last vector-like value plus the scalar mix
        vec = None
        for v, k in zip(vals[::-1], kinds[::-1]):
            if k == 'v' and getattr(v, 'shape', None) == (3,):
                vec = v; break
        if vec is None:
            vec = x
        return vec * 1.0 + (acc if acc is not None else 0.0) * np.array([1.0, -0.5, 0.25])

    def peak(x0):
        """largest |intermediate value| of the program at the plain point x0: the output sums all intermediates, so huge ones
        cancel there and the rounding of that cancellation dominates any comparison of two evaluation orders"""
        tr = []
        x0 = np.asarray(x0, dtype=float)
        if x0.ndim == 1:
            # a plain point: look at the curve x0 + t + t^2 + t^3 as well, derivatives of intermediates (sin of a large argument ...)
            # grow like powers of the inner derivative and cancel just like large values do
            c = np.ones((4, 1) + x0.shape); c[0, 0] = x0
        else:
            c = x0
        try:
            with np.errstate(all='ignore'):
                f(UTPM(c.copy()), tr)
        except Exception:
            return float('inf')
        m = max(tr) if tr else 0.0
        return m if np.isfinite(m) else float('inf')
    f.peak = peak
    return f


def _slot3(v):
    y = A.zeros(3, dtype=v)
    y[0] = v[0]
    y[1] = y[0] * v[1]
    y[0] = y[1] * v[2] + y[0]
    y[2] = A.sin(y[0]) + y[1]
    return y


# ------------------------------------------------------------------------------------------------------
# tracer helpers
# ------------------------------------------------------------------------------------------------------

def record(f, xs):
    """xs: list of recording values (ndarray or UTPM); returns (cg, value computed while recording)"""
    cg = CGraph()
    fx = [Function(x) for x in xs]
    y = f(*fx)
    cg.trace_off()
    cg.independentFunctionList = fx
    cg.dependentFunctionList = [y]
    return cg, y


def rec_value(kind, base, rng, Dr=2, Pr=2):
    """recording operand of the requested kind built around a base point"""
    base = np.asarray(base, dtype=float)
    if kind == 'ndarray':
        return base.copy()
    if kind == 'utpm11':
        return UTPM(base.reshape((1, 1) + base.shape).copy())
    d = 0.3 * rng.normal(size=(Dr, Pr) + base.shape)
    d[0] = base
    return UTPM(d)


def pairing(a, b):
    """(D,P) array of sum_elements (a (*) b)_d, (*) the truncated Cauchy product"""
    D, P = a.shape[:2]
    out = np.zeros((D, P), dtype=np.result_type(a.dtype, b.dtype, float))
    for d in range(D):
        for c in range(d + 1):
            out[d] += (a[c] * b[d - c]).reshape(P, -1).sum(axis=1)
    return out


def forward_Jv(f, xs, vs):
    """[F'(x(t)) v(t)]_d, d<D, by forward propagation alone: curves z_s = x + s t^D v with 2D coefficients, s in {0,1}
    carried as extra directions; returns (Jv data (D,P)+yshape, y data (D,P)+yshape)"""
    D, P = xs[0].shape[:2]
    zs = []
    for x, v in zip(xs, vs):
        z = np.zeros((2 * D, 2 * P) + x.shape[2:])
        z[:D, :P] = x; z[:D, P:] = x
        z[D:, P:] = v
        zs.append(UTPM(z))
    y = f(*zs)
    return y.data[D:, P:] - y.data[D:, :P], y.data[:D, :P]
