"""bare_temporaries.py <seed>  - run in a fresh interpreter WITHOUT the probe layer.

The probe's wrappers keep references to the operands of the call they observe; code that treats an operand differently
when nothing else refers to it (reference counts, weak references, `is`-identity with a recent result) therefore behaves
differently under observation.  This script evaluates functions and operators on *unnamed temporaries* that share
coefficient memory with objects the caller keeps - `x.T.exp()`, `UTPM.sqrt(x[1])`, `UTPM(arr).log()`, `(x[:2]) * y` -
with the library untouched, and reports for each expression whether the kept object changed and whether evaluating the
same expression twice gives the same coefficients.  Output: one JSON object on stdout."""
import sys, os, json, warnings

warnings.simplefilter('ignore')
sys.path.insert(0, os.path.dirname(os.path.dirname(os.path.abspath(__file__))))
from adsan import boot

algopy = boot.load_sut()
import numpy as np
from algopy import UTPM

np.seterr(all='ignore')


def main():
    seed = int(sys.argv[1]) if len(sys.argv) > 1 else 0
    rng = np.random.default_rng(seed)
    unary = ['exp', 'log', 'sqrt', 'sin', 'cos', 'tan', 'expm1', 'log1p', 'square', 'reciprocal', 'negative', 'arcsin', 'arctan', 'sinh', 'cosh', 'tanh',
             'erf', 'absolute', 'sign', '__neg__', '__abs__', 'sum', 'conjugate']
    out = {'checked': 0, 'violations': [], 'unsupported': 0, 'expressions': set()}
    for rep in range(6):
        D, P = [(1, 1), (2, 1), (3, 2), (2, 3), (4, 1), (1, 2)][rep]
        n = 3
        for name in unary:
            if not hasattr(UTPM, name):
                continue
            for how in ('x.T.<f>()', 'x[1].<f>()', 'x[:2].<f>()', 'UTPM(arr).<f>()', 'UTPM.<f>(x.T)', 'UTPM.<f>(x[0])', 'getattr(x[...], f)()',
                        'algopy.<f>(x.T)', 'x.reshape(...).<f>()', 'x.copy().T.<f>() twice'):
                arr = rng.uniform(0.2, 0.8, size=(D, P, n, n))          # inside every domain used here
                keep = arr.copy()
                x = UTPM(arr)
                try:
                    if how == 'x.T.<f>()':
                        r1 = getattr(x.T, name)().data.copy(); r2 = getattr(x.T, name)().data.copy()
                    elif how == 'x[1].<f>()':
                        r1 = getattr(x[1], name)().data.copy(); r2 = getattr(x[1], name)().data.copy()
                    elif how == 'x[:2].<f>()':
                        r1 = getattr(x[:2], name)().data.copy(); r2 = getattr(x[:2], name)().data.copy()
                    elif how == 'UTPM(arr).<f>()':
                        r1 = getattr(UTPM(arr), name)().data.copy(); r2 = getattr(UTPM(arr), name)().data.copy()
                    elif how == 'UTPM.<f>(x.T)':
                        r1 = getattr(UTPM, name)(x.T).data.copy(); r2 = getattr(UTPM, name)(x.T).data.copy()
                    elif how == 'UTPM.<f>(x[0])':
                        r1 = getattr(UTPM, name)(x[0]).data.copy(); r2 = getattr(UTPM, name)(x[0]).data.copy()
                    elif how == 'getattr(x[...], f)()':
                        r1 = getattr(x[...], name)().data.copy(); r2 = getattr(x[...], name)().data.copy()
                    elif how == 'algopy.<f>(x.T)':
                        if not hasattr(algopy, name):
                            continue
                        r1 = getattr(algopy, name)(x.T).data.copy(); r2 = getattr(algopy, name)(x.T).data.copy()
                    elif how == 'x.reshape(...).<f>()':
                        r1 = getattr(x.reshape((n * n,)), name)().data.copy(); r2 = getattr(x.reshape((n * n,)), name)().data.copy()
                    else:
                        r1 = getattr(x.copy().T, name)().data.copy(); r2 = getattr(x.copy().T, name)().data.copy()
                except Exception:
                    out['unsupported'] += 1
                    continue
                out['checked'] += 1
                out['expressions'].add(how)
                changed = not np.array_equal(arr, keep, equal_nan=True)
                unstable = r1.shape != r2.shape or not np.array_equal(r1, r2, equal_nan=True)
                if changed or unstable:
                    out['violations'].append({'function': name, 'expression': how, 'D': D, 'P': P, 'kept_object_changed': bool(changed),
                                              'same_expression_twice_differs': bool(unstable)})
        # binary operators with a temporary on either side
        import operator
        for opn in ('add', 'sub', 'mul', 'truediv', 'pow'):
            op = getattr(operator, opn)
            for how in ('x.T op y', 'y op x.T', 'x[1] op 2.5', '2.5 op x[1]', 'x[:2] op x[:2]', 'UTPM(arr) op UTPM(arr)'):
                arr = rng.uniform(0.2, 0.8, size=(D, P, n, n)); keep = arr.copy()
                yarr = rng.uniform(0.2, 0.8, size=(D, P, n, n)); ykeep = yarr.copy()
                x = UTPM(arr); y = UTPM(yarr)
                try:
                    ev = {'x.T op y': lambda: op(x.T, y), 'y op x.T': lambda: op(y, x.T), 'x[1] op 2.5': lambda: op(x[1], 2.5), '2.5 op x[1]': lambda: op(2.5, x[1]),
                          'x[:2] op x[:2]': lambda: op(x[:2], x[:2]), 'UTPM(arr) op UTPM(arr)': lambda: op(UTPM(arr), UTPM(arr))}[how]
                    r1 = ev().data.copy(); r2 = ev().data.copy()
                except Exception:
                    out['unsupported'] += 1
                    continue
                out['checked'] += 1
                out['expressions'].add(how)
                changed = not (np.array_equal(arr, keep) and np.array_equal(yarr, ykeep))
                unstable = not np.array_equal(r1, r2, equal_nan=True)
                if changed or unstable:
                    out['violations'].append({'function': opn, 'expression': how, 'D': D, 'P': P, 'kept_object_changed': bool(changed),
                                              'same_expression_twice_differs': bool(unstable)})
    out['expressions'] = sorted(out['expressions'])
    out['sut'] = os.path.dirname(algopy.__file__)
    print(json.dumps(out))


if __name__ == '__main__':
    main()
