"""O-mp: arbitrary-precision composition oracle, independent of any Taylor recurrence.

Coefficients of f(x(t)) mod t^D: Taylor coefficients f_k of the scalar function at x_0 from mpmath
(high-precision numerical differentiation of mpmath's own special functions), then Horner composition
with the input series in mp arithmetic.  The same composition with absolute values gives the majorant
M_d that scales the tolerance."""
import mpmath as mp

mp.mp.dps = 60


def num(v):
    if isinstance(v, complex) or (hasattr(v, 'imag') and hasattr(v, 'real') and getattr(v, 'imag', 0) != 0):
        return mp.mpc(float(v.real), float(v.imag))
    if hasattr(v, 'real') and not isinstance(v, (int, float)):
        return mp.mpf(float(v.real))
    return mp.mpf(float(v)) if not isinstance(v, int) else mp.mpf(v)


def compose(fk, xs):
    """fk[k]: k-th Taylor coefficient of f at xs[0]; xs: x_0..x_{D-1}; returns f(x(t)) mod t^D"""
    D = len(xs)
    h = [mp.mpf(0)] + list(xs[1:])
    res = [mp.mpf(0)] * D
    for k in range(D - 1, -1, -1):
        new = [mp.mpf(0)] * D
        for i in range(D):
            if res[i] == 0:
                continue
            for j in range(1, D - i):
                if h[j] != 0:
                    new[i + j] += res[i] * h[j]
        new[0] += fk[k]
        res = new
    return res


def taylor_coeffs(mf, x0, n):
    """[f^(k)(x0)/k! for k<=n]"""
    if n == 0:
        return [mf(x0)]
    old = mp.mp.dps
    mp.mp.dps = old + 6 * n
    try:
        # mp.taylor differentiates numerically with absolute step / chop thresholds: a function whose values are tiny or huge at
        # x0 (exp(-161) = 1e-70) comes back as 0.  Differentiate f / |f(x0)| instead and scale back.
        f0 = mf(x0)
        a0 = abs(f0)
        if a0 != 0 and not (mp.mpf('1e-20') < a0 < mp.mpf('1e20')):
            return [+(v * a0) for v in mp.taylor(lambda z: mf(z) / a0, x0, n)]
        return [+v for v in mp.taylor(mf, x0, n)]
    finally:
        mp.mp.dps = old


def series(mf, xs):
    """returns (ref, maj): coefficients of f(x(t)) and the majorant series"""
    xs = [num(v) for v in xs]
    D = len(xs)
    fk = taylor_coeffs(mf, xs[0], D - 1)
    ref = compose(fk, xs)
    maj = compose([abs(v) for v in fk], [abs(v) for v in xs])
    return ref, maj


def mul(a, b):
    D = len(a)
    return [sum(a[i] * b[d - i] for i in range(d + 1)) for d in range(D)]


def dawsn(x):
    return mp.sqrt(mp.pi) / 2 * mp.exp(-x * x) * mp.erfi(x)


def expit(x):
    return 1 / (1 + mp.exp(-x))


def logit(x):
    return mp.log(x / (1 - x))


def err_over_maj(got, ref, maj):
    """max_d |got_d - ref_d| / (maj_d + tiny)  (floats/complex vs mp numbers)"""
    worst = mp.mpf(0)
    for g, r, m in zip(got, ref, maj):
        if not (abs(complex(g)) < float('inf')):          # NaN or inf in the result: never "close"
            return float('inf')
        e = abs(num(g) - r) / (m + mp.mpf(10) ** -280)
        if e > worst:
            worst = e
    return float(worst)
