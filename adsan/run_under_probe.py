"""run_under_probe.py <script.py> <out.json> <C14,C10,...>  - execute a stand-alone script (documentation example) with the
ADSan probe layer and the requested monitors installed; the monitors' observations are dumped as json.
Run with cwd = the tree under test so that its algopy is imported."""
import os, sys, json, runpy, warnings, io, contextlib

script, out, which = os.path.abspath(sys.argv[1]), os.path.abspath(sys.argv[2]), sys.argv[3].split(',')
sys.dont_write_bytecode = True
sys.path.insert(0, os.getcwd())
sys.path.insert(1, os.path.dirname(os.path.dirname(os.path.abspath(__file__))))
warnings.simplefilter('ignore')
import numpy
numpy.seterr(all='ignore')
import algopy
from adsan import core, probe, monitors

ctxs = {}
mons = []
for pid in which:
    ctx = core.Ctx(pid, 'thorough', 0)
    ctx.current_case = {'kind': 'ambient-doc', 'seed': 0, 'params': {'script': os.path.basename(script)}}
    ctxs[pid] = ctx
    mons.append({'C14': monitors.ImmutabilityMonitor, 'C10': monitors.ZerothMonitor, 'C11': monitors.DirectionMonitor, 'C12': monitors.TruncationMonitor}[pid](ctx))
probe.install(mons)
status = 'ok'
os.chdir(os.path.dirname(os.path.abspath(script)))
try:
    with contextlib.redirect_stdout(io.StringIO()):
        sys.argv = [script]
        runpy.run_path(script, run_name='__main__')
except SystemExit:
    pass
except BaseException as e:
    status = '%s: %s' % (type(e).__name__, str(e)[:120])
json.dump({'status': status, 'algopy_file': algopy.__file__, 'probe_calls': probe.S.calls, 'ctx': {k: c.dump() for k, c in ctxs.items()}}, open(out, 'w'), default=str)
