"""O-Q: exact truncated power-series arithmetic over Q (and Q(i)), independent of algopy's kernels.
Floats are converted exactly (Fraction(float)), so the reference is the exact result for the floating-point inputs."""
from fractions import Fraction


class QC:
    """exact complex rational"""
    __slots__ = ('re', 'im')

    def __init__(self, re=0, im=0):
        self.re = re if isinstance(re, Fraction) else Fraction(re)
        self.im = im if isinstance(im, Fraction) else Fraction(im)

    @staticmethod
    def of(v):
        if isinstance(v, QC):
            return v
        if isinstance(v, complex) or hasattr(v, 'imag') and not isinstance(v, (int, float, Fraction)):
            return QC(Fraction(float(v.real)), Fraction(float(v.imag)))
        if isinstance(v, Fraction):
            return QC(v, 0)
        if isinstance(v, int):
            return QC(Fraction(v), 0)
        return QC(Fraction(float(v)), 0)

    def __add__(s, o): o = QC.of(o); return QC(s.re + o.re, s.im + o.im)
    __radd__ = __add__
    def __sub__(s, o): o = QC.of(o); return QC(s.re - o.re, s.im - o.im)
    def __rsub__(s, o): return QC.of(o) - s
    def __neg__(s): return QC(-s.re, -s.im)
    def __mul__(s, o):
        o = QC.of(o)
        if s.im == 0 and o.im == 0:
            return QC(s.re * o.re, 0)
        return QC(s.re * o.re - s.im * o.im, s.re * o.im + s.im * o.re)
    __rmul__ = __mul__
    def __truediv__(s, o):
        o = QC.of(o)
        if o.im == 0:
            return QC(s.re / o.re, s.im / o.re)
        n = o.re * o.re + o.im * o.im
        return QC((s.re * o.re + s.im * o.im) / n, (s.im * o.re - s.re * o.im) / n)
    def __rtruediv__(s, o): return QC.of(o) / s
    def iszero(s): return s.re == 0 and s.im == 0
    def abs1(s):
        """|re|+|im| (a cheap exact upper bound of the modulus, within sqrt(2))"""
        return abs(s.re) + abs(s.im)
    def __complex__(s): return complex(float(s.re), float(s.im))
    def __repr__(s): return 'QC(%s,%s)' % (float(s.re), float(s.im))


def ser(vals, D=None):
    s = [QC.of(v) for v in vals]
    if D is not None:
        s = (s + [QC(0)] * D)[:D]
    return s


def const(v, D):
    return [QC.of(v)] + [QC(0)] * (D - 1)


def add(a, b): return [x + y for x, y in zip(a, b)]
def sub(a, b): return [x - y for x, y in zip(a, b)]


def mul(a, b):
    D = len(a)
    out = []
    for d in range(D):
        acc = QC(0)
        for i in range(d + 1):
            if not (a[i].iszero() or b[d - i].iszero()):
                acc = acc + a[i] * b[d - i]
        out.append(acc)
    return out


def div(a, b):
    D = len(a)
    z = []
    for d in range(D):
        acc = a[d]
        for k in range(1, d + 1):
            if not (z[d - k].iszero() or b[k].iszero()):
                acc = acc - z[d - k] * b[k]
        z.append(acc / b[0])
    return z


def powi(a, n):
    D = len(a)
    if n < 0:
        return div(const(1, D), powi(a, -n))
    r = const(1, D)
    for _ in range(n):
        r = mul(r, a)
    return r


def absser(a):
    return [QC(x.abs1(), 0) for x in a]


def majorant(op, a, b=None, n=None):
    """series of absolute values through the same operation (division: majorant recurrence)"""
    A = absser(a)
    if op in ('add', 'sub'):
        return add(A, absser(b))
    if op == 'mul':
        return mul(A, absser(b))
    if op == 'div':
        B = absser(b)
        D = len(a)
        z = []
        for d in range(D):
            acc = A[d]
            for k in range(1, d + 1):
                acc = acc + z[d - k] * B[k]
            z.append(acc / B[0])
        return z
    if op == 'powi':
        if n >= 0:
            return powi(A, n)
        one = const(1, len(a))
        return majorant('div', one, powi(A, -n)) if False else _recip_major(powi(A, -n))
    raise KeyError(op)


def _recip_major(B):
    D = len(B)
    z = []
    for d in range(D):
        acc = QC(1 if d == 0 else 0)
        for k in range(1, d + 1):
            acc = acc + z[d - k] * B[k]
        z.append(acc / B[0])
    return z
