"""W-amb: run the repository's own test-suite with the ADSan probe layer installed (no repo edits).

    cd $ALGOPY_REPO && ALGOPY_VERIF=1 ADSAN_MONITORS=C14,C10,C11,C12 ADSAN_OUT=<file> PYTHONPATH=/verif \
        /venv/bin/python -m pytest -q -p no:cacheprovider -p adsan.pytest_plugin algopy

With ALGOPY_VERIF unset the plugin does nothing."""
import os, sys, json

_state = {}


def pytest_configure(config):
    if os.environ.get('ALGOPY_VERIF') != '1':
        return
    import warnings
    warnings.simplefilter('ignore')
    import algopy                                   # resolved from the current directory = tree under test
    from adsan import core, probe, monitors
    which = os.environ.get('ADSAN_MONITORS', 'C14').split(',')
    mons = []
    ctxs = {}
    for pid in which:
        ctx = core.Ctx(pid, 'thorough', 0)
        ctxs[pid] = ctx
        if pid == 'C14':
            mons.append(monitors.ImmutabilityMonitor(ctx))
        elif pid == 'C10':
            mons.append(monitors.ZerothMonitor(ctx))
        elif pid == 'C11':
            mons.append(monitors.DirectionMonitor(ctx))
        elif pid == 'C12':
            mons.append(monitors.TruncationMonitor(ctx))
    probe.install(mons)
    _state['ctxs'] = ctxs
    _state['algopy_file'] = algopy.__file__


def pytest_runtest_setup(item):
    for ctx in _state.get('ctxs', {}).values():
        ctx.current_case = {'kind': 'ambient', 'seed': 0, 'params': {'test': item.nodeid}}


def pytest_sessionfinish(session, exitstatus):
    if 'ctxs' not in _state:
        return
    from adsan import probe
    out = {'algopy_file': _state['algopy_file'], 'pytest_exit': int(exitstatus), 'probe_calls': probe.S.calls,
           'ctx': {pid: c.dump() for pid, c in _state['ctxs'].items()}}
    path = os.environ.get('ADSAN_OUT')
    if path:
        json.dump(out, open(path, 'w'), default=str)
