"""Polynomial programs R^N -> R^M with integer coefficients: one representation that is (a) executed through
the algopy API on ndarray / UTPM / Function values and (b) differentiated exactly in rationals (O-Q mirror)."""
import math, itertools
from fractions import Fraction
import numpy as np


class Poly:
    """multivariate polynomial {exponent tuple: Fraction}"""

    def __init__(self, N, terms=None):
        self.N = N
        self.t = {k: Fraction(v) for k, v in (terms or {}).items() if v != 0}

    def diff(self, i):
        out = {}
        for e, c in self.t.items():
            if e[i] > 0:
                e2 = e[:i] + (e[i] - 1,) + e[i + 1:]
                out[e2] = out.get(e2, 0) + c * e[i]
        return Poly(self.N, out)

    def partial(self, alpha):
        p = self
        for i, a in enumerate(alpha):
            for _ in range(a):
                p = p.diff(i)
        return p

    def __call__(self, x):
        """exact value at a point given as Fractions"""
        s = Fraction(0)
        for e, c in self.t.items():
            v = c
            for xi, ei in zip(x, e):
                if ei:
                    v *= xi ** ei
            s += v
        return s

    def absval(self, x):
        s = Fraction(0)
        for e, c in self.t.items():
            v = abs(c)
            for xi, ei in zip(x, e):
                if ei:
                    v *= abs(xi) ** ei
            s += v
        return s

    def degree(self):
        return max((sum(e) for e in self.t), default=0)


def random_poly(rng, N, maxdeg, nterms):
    t = {}
    for _ in range(nterms):
        deg = int(rng.integers(1, maxdeg + 1))
        e = [0] * N
        for _ in range(deg):
            e[int(rng.integers(N))] += 1
        c = int(rng.integers(-4, 5)) or 2
        t[tuple(e)] = t.get(tuple(e), 0) + c
    t[tuple([0] * N)] = int(rng.integers(-3, 4))
    return Poly(N, t)


def evaluate(alg, polys, x, style=0):
    """run the polynomial map through the algopy API on x (ndarray, UTPM or Function of shape (N,));
    returns a vector of shape (M,) (or a scalar for a single polynomial when style says so)"""
    N = polys[0].N
    xs = [x[i] for i in range(N)]
    vals = []
    inplace = (abs(style) // 6) % 2 == 1         # accumulate like the builtin sum(): start from the integer 0, then update in place
    first = (abs(style) // 12) % 2 == 1          # with inplace: start from the first product coefficient * monomial (every coefficient is
    #                                              multiplied in, also a 1, given as a Python int where it is one) and update that in place
    for p in polys:
        acc = 0 if inplace else None
        for e, c in sorted(p.t.items()):
            term = None
            for i, ei in enumerate(e):
                if ei == 0:
                    continue
                if style % 3 == 0:
                    f = xs[i] ** ei if ei > 1 else xs[i]
                elif style % 3 == 1:
                    f = xs[i]
                    for _ in range(ei - 1):
                        f = f * xs[i]
                else:
                    f = xs[i] ** ei if ei != 2 else xs[i] * xs[i]
                term = f if term is None else term * f
            cf = float(c)
            if first and cf == int(cf):
                cf = int(cf)
            if term is None:
                term = cf + 0 * xs[0]
            elif cf != 1.0 or first:
                term = cf * term if style % 2 == 0 else term * cf
            if inplace and first and isinstance(acc, int):
                acc = term
            elif inplace:
                if isinstance(acc, int):
                    acc = acc + term
                else:
                    acc += term
            else:
                acc = term if acc is None else acc + term
        vals.append(acc)
    if len(polys) == 1 and style >= 0:
        return vals[0]
    y = alg.zeros(len(polys), dtype=x)
    for m, v in enumerate(vals):
        y[m] = v
    return y


def multi_indices(N, d):
    return [c for c in itertools.product(range(d + 1), repeat=N) if sum(c) == d]
