"""O-eq helpers: truncated convolution of NumPy products (independent of algopy's _dot kernels),
residuals of defining equations modulo t^D with majorants."""
import numpy as np

LD = np.longdouble


def cdot(A, B, f=np.dot):
    """A, B: (D,P,...) coefficient arrays; returns (C, M): truncated product and its majorant"""
    D, P = A.shape[:2]
    dt = np.result_type(A.dtype, B.dtype, np.float64)
    hi = np.clongdouble if np.issubdtype(dt, np.complexfloating) else LD
    out = None
    for d in range(D):
        for p in range(P):
            acc = None; accm = None
            for k in range(d + 1):
                t = f(A[k, p].astype(hi), B[d - k, p].astype(hi))
                tm = f(np.abs(A[k, p]).astype(LD), np.abs(B[d - k, p]).astype(LD))
                acc = t if acc is None else acc + t
                accm = tm if accm is None else accm + tm
            if out is None:
                out = np.zeros((D, P) + np.shape(acc), dtype=hi)
                maj = np.zeros((D, P) + np.shape(acc), dtype=LD)
            out[d, p] = acc; maj[d, p] = accm
    return out, maj


def lift(c, D, P):
    """constant ndarray -> (D,P,...) coefficient array (degree-0 polynomial)"""
    c = np.asarray(c)
    out = np.zeros((D, P) + c.shape, dtype=c.dtype if c.dtype.kind in 'fc' else float)
    out[0, :] = c
    return out


def T(A):
    """transpose of the last two axes of a (D,P,n,m) array"""
    return np.swapaxes(A, -1, -2)


def eye(D, P, n):
    I = np.zeros((D, P, n, n)); I[0, :] = np.eye(n)
    return I


def rel_residual(R, M):
    """max |R| / (M + tiny) over all entries (longdouble arrays)"""
    R = np.asarray(R); M = np.asarray(M)
    if R.size == 0:
        return 0.0
    return float(np.max(np.abs(R) / (M + LD(1e-300))))


def cond2(A0):
    s = np.linalg.svd(np.asarray(A0, dtype=float), compute_uv=False)
    return float(s[0] / s[-1]) if s[-1] > 0 else np.inf


def res_norm(R, M):
    """norm-wise residual for defining equations: max over (d,p) of max|R[d,p]| / s[d,p] with
    s[d,p] = max_{k<=d} max|M[k,p]| (rounding of lower orders legitimately leaks into higher orders,
    and structurally tiny entries are measured against the size of the slice, not against themselves)"""
    R = np.abs(np.asarray(R)); M = np.asarray(M)
    if R.size == 0:
        return 0.0
    D, P = R.shape[:2]
    r = R.reshape(D, P, -1).max(axis=2)
    m = np.maximum.accumulate(M.reshape(D, P, -1).max(axis=2), axis=0)
    return float(np.max(r / (m + LD(1e-300))))
