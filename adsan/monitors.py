"""Online monitors subscribed to the probe layer.

ImmutabilityMonitor (C14a)  - byte snapshots of every argument before/after every public call
DirectionMonitor    (C11)   - shadow re-execution per direction
TruncationMonitor   (C12)   - shadow re-execution on truncated inputs
ZerothMonitor       (C10)   - NumPy/SciPy on the zeroth coefficients, shape/len/size/ndim, comparisons
SliceMonitor        (C13)   - slice-wise NumPy model of the shape-manipulating operations

Every monitor only fires inside its guard; anything else is a counted skip."""
import operator
import numpy as np
import scipy.linalg, scipy.special
import algopy
from algopy import UTPM
from algopy.tracer.tracer import CGraph, Function
from .probe import Monitor

INPLACE = {'__iadd__': 0, '__isub__': 0, '__imul__': 0, '__itruediv__': 0, '__idiv__': 0, '__setitem__': 0, 'set_zero': 0}
# names whose semantics depend on D or P by design (not subject to the C11/C12 shadows)
STRUCTURAL = {'shift', 'init_jacobian', 'init_jac_vec', 'init_hessian', 'init_hess_vec', 'init_tensor', 'extract_jacobian',
              'extract_jac_vec', 'extract_hessian', 'extract_hess_vec', 'extract_tensor', 'FtoJT', 'JTtoF', 'coeff_op',
              'combine_blocks', 'as_utpm', 'clone', 'copy', 'zeros_like', 'ones_like', 'zeros', '__len__', 'get_flat',
              '__setitem__', 'set_zero', 'iouter', 'broadcast', 'eigh1',
              '__floordiv__'}      # floordiv shifts coefficients by design (L'Hospital) and loops forever on an all-zero divisor


def _datas(res):
    """list of coefficient arrays of a result (UTPM or tuple/list of UTPMs); None if there is nothing comparable"""
    if isinstance(res, UTPM):
        return [res.data]
    if isinstance(res, (tuple, list)) and res and all(isinstance(r, UTPM) for r in res):
        return [r.data for r in res]
    return None


def _scale(d, floor=0.0):
    """cumulative per-order magnitude s[k] = max_{j<=k} max|d[j]| (shape (D,1..)), plus an operand-size floor"""
    D = d.shape[0]
    m = np.abs(d).reshape(D, -1).max(axis=1) if d.size else np.zeros(D)
    return np.maximum.accumulate(m) + floor + 1e-300


def _operand_floor(ev):
    """rounding of a cancelling result (e.g. dot(A.T, nullspace)) is proportional to the operands, not to the result"""
    S = 1.0
    for (_, _, c) in ev.snaps:
        if c.size and c.dtype.kind in 'fc':
            S *= max(1.0, float(np.max(np.abs(c)))) * max(1.0, float(c.shape[-1] if c.ndim else 1))
    return 1e-4 * S


def _operand_floor_dir(ev, p):
    """the same floor from the operands of direction p alone (directions of very different magnitude must not hide each other)"""
    S = 1.0
    for (_, o, c) in ev.snaps:
        if c.size and c.dtype.kind in 'fc':
            cc = c[:, p] if (isinstance(o, UTPM) and c.ndim >= 2 and c.shape[1] > p) else c
            S *= max(1.0, float(np.max(np.abs(cc)))) * max(1.0, float(c.shape[-1] if c.ndim else 1))
    return 1e-4 * S


def _finite(c):
    """all entries finite; object arrays (Fraction operands, ...) are converted first, unconvertible ones count as finite"""
    try:
        return bool(np.all(np.isfinite(c)))
    except TypeError:
        try:
            return bool(np.all(np.isfinite(np.asarray(c, dtype=complex))))
        except Exception:
            return True


def _epsfac(*groups):
    """tolerances are stated for double precision; single (half) precision operands or results scale them by eps/eps_double"""
    fac = 1.0
    for g in groups:
        for a in g:
            dt = getattr(a, 'dtype', None)
            if dt is not None and dt.kind in 'fc' and dt.itemsize // (2 if dt.kind == 'c' else 1) < 8:
                fac = max(fac, float(np.finfo(dt).eps) / 2.220446049250313e-16)
    return fac


# set by workloads whose recorded program itself assigns into its argument (evaluating it then does what the program does)
PROGRAM_WRITES_INPUT = [False]


class ImmutabilityMonitor(Monitor):
    """C14(a): no non-in-place call modifies the coefficient data of its arguments; in-place operators modify only
    the left operand; pb_* only their `out=` accumulators; tracer calls leave the user's objects untouched."""
    max_depth = 99

    def _allowed(self, ev):
        ok = set()
        if ev.name in INPLACE:
            ok.add(('a', INPLACE[ev.name]))
        if ev.name.startswith('pb_'):
            ok.add(('k', 'out'))
            if ev.name in ('pb___setitem__', 'pb_setitem'):
                ok.add(('a', 0))
        if ev.name in ('iouter',):
            ok.add(('a', 2))
        if ev.name == 'shift':
            ok.add(('k', 'out')); ok.add(('a', 2))
        for k in ('out',):
            ok.add(('k', k))
        return ok

    def _check(self, ev, raised):
        if ev.kind == 'tracer' and ev.name in ('pushforward', 'function') and PROGRAM_WRITES_INPUT[0]:
            return            # the recorded program itself assigns into its argument: evaluating it does what the program does
        allowed = self._allowed(ev)
        ncmp = 0
        mutable = [(o.data if isinstance(o, UTPM) else o) for (pth, o, _) in ev.snaps if any(pth[:len(a)] == a for a in allowed)]
        for (path, obj, before) in ev.snaps:
            if any(path[:len(a)] == a for a in allowed):
                continue
            now = obj.data if isinstance(obj, UTPM) else obj
            if any(np.may_share_memory(now, m) for m in mutable):
                continue          # the argument aliases the operand that is allowed to change (x op= view_of_x, ybar a view of xbar)
            ncmp += 1
            same = now.shape == before.shape and (now.tobytes() == before.tobytes() if now.flags['C_CONTIGUOUS'] else np.array_equal(now, before, equal_nan=True))
            if not same:
                kind = 'pullback' if ev.name.startswith('pb_') else ('tracer' if ev.kind == 'tracer' else ('inplace-other-operand' if ev.name in INPLACE else 'operation'))
                self.ctx.violation('modified-argument:%s:%s' % (kind, ev.name),
                                   {'call': ev.name, 'argument': list(path), 'depth': ev.depth, 'raised': raised,
                                    'n_changed': int(np.sum(now != before)) if now.shape == before.shape else -1})
                return
        if ncmp:
            self.ctx.ok('immutability:' + ('pb' if ev.name.startswith('pb_') else ('tracer' if ev.kind == 'tracer' else 'op')),
                        ('imm', ev.name, ev.depth > 0))
            self.ctx.ops['immutability:name:' + ev.name] += 1

    # operations whose result legitimately is a view of (or the same object as) an argument, as in NumPy
    VIEW_OK = {'__getitem__', 'transpose', 'get_transpose', 'reshape', 'real', 'imag', 'get_flat', 'coeff_op', 'FtoJT', 'JTtoF',
               '__iadd__', '__isub__', '__imul__', '__itruediv__', '__idiv__', 'set_zero', 'shift', 'iouter', 'broadcast',
               'symvec', 'vecsym', 'as_utpm', 'combine_blocks'}

    def _alias(self, ev, res):
        if ev.kind == 'tracer' or ev.name.startswith('pb_') or ev.name in self.VIEW_OK:
            return
        outs = _datas(res)
        if not outs:
            return
        obufs = [(o.data if isinstance(o, UTPM) else o) for (pth, o, _) in ev.snaps if pth[:2] == ('k', 'out')]
        for (path, obj, before) in ev.snaps:
            if path[:2] == ('k', 'out'):
                continue          # results are written into the caller's out= buffers by design
            now = obj.data if isinstance(obj, UTPM) else obj
            if now.size == 0:
                continue
            if any(np.may_share_memory(now, b) for b in obufs):
                continue          # the caller handed the argument itself as out= buffer (overwrite-the-input form)
            for o in outs:
                if o.size and np.shares_memory(o, now):
                    self.ctx.violation('result-aliases-argument:%s' % ev.name, {'call': ev.name, 'argument': list(path), 'depth': ev.depth,
                                                                               'dtype': str(now.dtype)})
                    return
        self.ctx.ok('no-alias:op', ('noalias', ev.name))

    def on_return(self, ev, res):
        self._check(ev, False)
        if ev.depth == 0:
            self._alias(ev, res)

    def on_raise(self, ev, exc):
        self._check(ev, True)


class DirectionMonitor(Monitor):
    """C11: the result for direction p equals the result of the same call on the single-direction input"""
    TOL = 1e-11

    def on_return(self, ev, res):
        if ev.depth > self.max_depth or ev.kind == 'tracer' or ev.name in STRUCTURAL or ev.name.startswith('pb_'):
            return
        ua = ev.utpm_args()
        if not ua:
            return
        if not all(_finite(c) for (_, _, c) in ev.snaps):
            self.ctx.skip('nonfinite-input'); return
        Ps = {c.shape[1] for (_, _, c) in ua}
        if len(Ps) != 1:
            self.ctx.skip('mixed-P'); return
        P = Ps.pop()
        if P < 2:
            self.ctx.skip('P=1'); return
        full = _datas(res if ev.name not in INPLACE else ev.args[0])
        if full is None:
            self.ctx.skip('no-utpm-result:' + ev.name); return
        f = getattr(ev.owner, ev.name)
        for p in range(P):
            args, kwargs = ev.rebuild(lambda c: c[:, p:p + 1].copy())
            try:
                r1 = f(*args, **kwargs)
            except Exception as e:
                self.ctx.violation('direction:%s:single-direction-raises' % ev.name, {'call': ev.name, 'direction': p, 'error': repr(e)[:200]}); return
            one = _datas(r1 if ev.name not in INPLACE else args[0])
            if one is None or len(one) != len(full):
                self.ctx.skip('no-utpm-result:' + ev.name); return
            for a, b in zip(full, one):
                if a[:, p:p + 1].shape != b.shape:
                    self.ctx.violation('direction:%s:shape' % ev.name, {'call': ev.name, 'direction': p, 'full': a.shape, 'single': b.shape}); return
                if not _finite(b):
                    self.ctx.skip('nonfinite-result'); continue          # this direction overflows / is singular on its own
                if not _finite(a[:, p:p + 1]):
                    # finite when computed alone, not finite next to the other directions: something leaked between directions
                    self.ctx.violation('direction:%s:nonfinite-only-with-other-directions' % ev.name, {'call': ev.name, 'direction': p, 'P': P}); return
                s = _scale(b, _operand_floor_dir(ev, p))
                err = np.abs(a[:, p:p + 1] - b).reshape(b.shape[0], -1).max(axis=1) if b.size else np.zeros(b.shape[0])
                if not np.all(err <= self.TOL * _epsfac(full, [c for (_, _, c) in ev.snaps]) * s):
                    d_bad = int(np.argmax(err / s))
                    self.ctx.violation('direction:%s:value%s' % (ev.name, getattr(self.ctx, 'direction_tag', '')), {'call': ev.name, 'direction': p, 'P': P, 'first_bad_order': d_bad,
                                                                       'err_over_scale': float(np.max(err / s))}); return
                self.ctx.noise['direction'] = max(self.ctx.noise.get('direction', 0.0), float(np.max(err / s)))
        self.ctx.ok('direction:' + ev.name, ('dir', ev.name, P, tuple(c.shape[2:] for (_, _, c) in ua)))


class TruncationMonitor(Monitor):
    """C12: coefficients of order < D' computed with D coefficients equal the result on inputs truncated to D'"""
    TOL = 1e-11

    def __init__(self, ctx, all_orders=False):
        Monitor.__init__(self, ctx)
        self.all_orders = all_orders

    def on_return(self, ev, res):
        if ev.depth > self.max_depth or ev.kind == 'tracer' or ev.name in STRUCTURAL or ev.name.startswith('pb_'):
            return
        ua = ev.utpm_args()
        if not ua:
            return
        if not all(_finite(c) for (_, _, c) in ev.snaps):
            self.ctx.skip('nonfinite-input'); return
        Ds = {c.shape[0] for (_, _, c) in ua}
        if len(Ds) != 1:
            self.ctx.skip('mixed-D'); return
        D = Ds.pop()
        if D < 2:
            self.ctx.skip('D=1'); return
        if ev.name == 'eig':
            self.ctx.skip('eig: D<=2 only'); return
        full = _datas(res if ev.name not in INPLACE else ev.args[0])
        if full is None:
            self.ctx.skip('no-utpm-result:' + ev.name); return
        full_finite = all(_finite(a) for a in full)
        f = getattr(ev.owner, ev.name)
        orders = range(1, D) if (self.all_orders or D <= 6) else sorted({1, D - 1, 1 + (D * 7919) % (D - 1)})
        for Dp in orders:
            args, kwargs = ev.rebuild(lambda c: c[:Dp].copy())
            try:
                r1 = f(*args, **kwargs)
            except Exception as e:
                self.ctx.violation('truncation:%s:truncated-raises' % ev.name, {'call': ev.name, 'D': D, 'Dp': Dp, 'error': repr(e)[:200]}); return
            one = _datas(r1 if ev.name not in INPLACE else args[0])
            if one is None or len(one) != len(full):
                self.ctx.skip('no-utpm-result:' + ev.name); return
            pairs = list(zip(full, one))
            if ev.name in ('eigh', 'svd'):
                # eigen/singular vectors are uniquely defined only for distinct eigenvalues of A_0
                lam = full[0][0] if ev.name == 'eigh' else full[1][0]
                gaps = np.abs(np.diff(np.sort(lam, axis=-1), axis=-1))
                if gaps.size and np.min(gaps) < 1e-6:
                    pairs = [pairs[0]] if ev.name == 'eigh' else [pairs[1]]
                    self.ctx.skip('eigenvectors-not-unique (repeated eigenvalues)')
            if not full_finite:
                # a non-finite result (0/0, log 0, ...) is only comparable in its pattern: the truncated run must be
                # non-finite in exactly the same low-order entries
                for a, b in pairs:
                    if a[:Dp].shape != b.shape or not np.array_equal(np.isfinite(a[:Dp]), np.isfinite(b)):
                        self.ctx.violation('truncation:%s:nonfinite-pattern' % ev.name, {'call': ev.name, 'D': D, 'Dp': Dp}); return
                continue
            for a, b in pairs:
                if a[:Dp].shape != b.shape:
                    self.ctx.violation('truncation:%s:shape' % ev.name, {'call': ev.name, 'D': D, 'Dp': Dp, 'full': a.shape, 'truncated': b.shape}); return
                s = _scale(b, _operand_floor(ev))
                err = np.abs(a[:Dp] - b).reshape(Dp, -1).max(axis=1) if b.size else np.zeros(Dp)
                if not np.all(err <= self.TOL * _epsfac(full, [c for (_, _, c) in ev.snaps]) * s):
                    self.ctx.violation('truncation:%s:value' % ev.name, {'call': ev.name, 'D': D, 'Dp': Dp, 'first_bad_order': int(np.argmax(err / s)),
                                                                        'err_over_scale': float(np.max(err / s))}); return
                self.ctx.noise['truncation'] = max(self.ctx.noise.get('truncation', 0.0), float(np.max(err / s)))
        if not full_finite:
            self.ctx.skip('nonfinite-result (pattern compared)'); return
        self.ctx.ok('truncation:' + ev.name, ('trunc', ev.name, D, tuple(c.shape[2:] for (_, _, c) in ua)))


# ------------------------------------------------------------------------------------------------------
# C10: zeroth coefficient, shapes and comparisons follow NumPy
# ------------------------------------------------------------------------------------------------------

def _np_table():
    sp = scipy.special
    T = {
        '__add__': operator.add, '__radd__': lambda a, b: b + a, '__sub__': operator.sub, '__rsub__': lambda a, b: b - a,
        '__mul__': operator.mul, '__rmul__': lambda a, b: b * a, '__truediv__': operator.truediv, '__rtruediv__': lambda a, b: b / a,
        '__div__': operator.truediv, '__rdiv__': lambda a, b: b / a,
        '__pow__': operator.pow, '__rpow__': lambda a, b: b ** a, '__neg__': operator.neg, '__abs__': np.abs, 'abs': np.abs, 'fabs': np.abs,
        'add': operator.add, 'sub': operator.sub, 'mul': operator.mul, 'div': operator.truediv, 'multiply': operator.mul, 'neg': operator.neg,
        'botched_clip': lambda lo, hi, x: np.clip(x, lo, hi),
        'polygamma': sp.polygamma, 'hyperu': sp.hyperu,
        'sum': lambda x, axis=None, dtype=None, out=None: np.sum(x, axis=axis), 'prod': np.prod,
        'dot': np.dot, 'outer': np.outer, 'inv': np.linalg.inv, 'solve': np.linalg.solve, 'det': np.linalg.det,
        'logdet': lambda x: np.linalg.slogdet(x)[1], 'trace': np.trace,
        'diag': lambda v, k=0, out=None: np.diag(v, k), 'triu': lambda x, k=0, out=None: np.triu(x, k), 'tril': lambda x, k=0, out=None: np.tril(x, k),
        'reshape': lambda x, s, order='C': np.reshape(x, s), 'transpose': lambda x, axes=None: np.transpose(x, axes),
        'tile': lambda x, reps, out=None: np.tile(x, reps), 'real': np.real, 'imag': np.imag, 'conjugate': np.conjugate, 'conj': np.conjugate,
        'fft': lambda a, n=None, axis=-1, out=None: np.fft.fft(a, n=n, axis=axis), 'ifft': lambda a, n=None, axis=-1, out=None: np.fft.ifft(a, n=n, axis=axis),
        'qr': lambda A, **k: tuple(np.linalg.qr(A)), 'qr_full': lambda A, **k: tuple(scipy.linalg.qr(A)), 'cholesky': lambda A, **k: np.linalg.cholesky(A),
        'lu': lambda A, **k: tuple(scipy.linalg.lu(A)),
        'max': lambda a, axis=None, out=None: np.max(a), 'argmax': lambda a, axis=None: np.argmax(a),
        '__getitem__': lambda x, sl: x[sl], 'symvec': lambda A, UPLO='F': algopy.utils.symvec(A, UPLO), 'vecsym': algopy.utils.vecsym,
        'minimum': np.minimum, 'maximum': np.maximum,
        'erf': sp.erf, 'erfi': sp.erfi, 'dawsn': sp.dawsn, 'logit': sp.logit, 'expit': sp.expit, 'gammaln': sp.gammaln, 'psi': sp.psi,
    }
    for nm in ('exp', 'expm1', 'log', 'log1p', 'sqrt', 'sin', 'cos', 'tan', 'arcsin', 'arccos', 'arctan', 'sinh', 'cosh', 'tanh', 'sign',
               'absolute', 'square', 'negative', 'reciprocal'):
        T[nm] = getattr(np, nm)
    return T


NP_TABLE = _np_table()
CMP = {'__lt__': operator.lt, '__le__': operator.le, '__gt__': operator.gt, '__ge__': operator.ge, '__eq__': operator.eq}
DATA_MOVEMENT = {'diag', 'triu', 'tril', 'reshape', 'transpose', 'tile', 'real', 'imag', '__getitem__', '__neg__', 'neg', 'negative', 'symvec', 'vecsym', 'minimum', 'maximum'}
PARTIAL = {'eigh': 'eigh', 'eig': 'eig', 'svd': 'svd'}      # factor matrices fixed only up to convention: compare the invariant part


class ZerothMonitor(Monitor):
    """C10: result.data[0,p] equals NumPy/SciPy on the zeroth coefficients of direction p; shape/len/size/ndim are NumPy's;
    comparison operators return numpy.all(op(x_0, y_0))"""
    TOL = 1e-12

    def on_return(self, ev, res):
        if ev.depth > self.max_depth or ev.kind == 'tracer' or ev.name.startswith('pb_'):
            return
        name = ev.name
        ua = ev.utpm_args()
        if not ua:
            return
        if name in CMP:
            return self._compare(ev, res)
        if name not in NP_TABLE and name not in PARTIAL:
            self.ctx.skip('no-numpy-counterpart:' + name); return
        nonfinite = not all(_finite(c) for (_, _, c) in ev.snaps)
        if nonfinite and name not in DATA_MOVEMENT:
            self.ctx.skip('nonfinite-input'); return
        Ps = {c.shape[1] for (_, _, c) in ua}
        if len(Ps) != 1:
            self.ctx.skip('mixed-P'); return
        P = Ps.pop()
        outs = _datas(res)
        if outs is None:
            if name == 'argmax':
                outs = [np.asarray(res).reshape((1, P))]
            else:
                self.ctx.skip('no-utpm-result:' + name); return
        single = isinstance(res, UTPM) or name == 'argmax'
        for p in range(P):
            snap = {pth: (o, c) for (pth, o, c) in ev.snaps}

            def z(path, a):
                if path in snap:
                    o, c = snap[path]
                    return c[0, p] if isinstance(o, UTPM) else c
                return a
            args = [z(('a', i), a) for i, a in enumerate(ev.args)]
            kwargs = {k: z(('k', k), v) for k, v in ev.kwargs.items() if k not in ('out', 'epsilon', 'work')}
            try:
                with np.errstate(all='ignore'):
                    if name in PARTIAL:
                        ref = self._partial_ref(name, args)
                    else:
                        ref = NP_TABLE[name](*args, **kwargs)
            except Exception as e:
                self.ctx.skip('numpy-rejects:' + name); return
            refs = [np.asarray(ref)] if not isinstance(ref, tuple) else [np.asarray(r) for r in ref]
            gots = [o[0, p] for o in outs]
            if name in PARTIAL:
                gots = self._partial_got(name, gots)
            if len(gots) != len(refs):
                self.ctx.violation('zeroth:%s:number-of-outputs' % name, {'call': name, 'got': len(gots), 'want': len(refs)}); return
            for k, (g, r) in enumerate(zip(gots, refs)):
                g = np.asarray(g)
                if g.shape != r.shape:
                    self.ctx.violation('zeroth:%s:shape' % name, {'call': name, 'output': k, 'got': g.shape, 'want': r.shape, 'direction': p}); return
                if nonfinite:
                    # selecting, moving or discarding entries: inf and nan travel with the entry, discarded entries are exactly 0
                    if not np.array_equal(g, r, equal_nan=True):
                        self.ctx.violation('zeroth:%s:value:nonfinite-entries' % name, {'call': name, 'output': k, 'direction': p, 'got': repr(g)[:150], 'want': repr(r)[:150]}); return
                    continue
                if not np.all(np.isfinite(r.astype(complex))):
                    continue
                sc = np.max(np.abs(r)) + 1e-300 if r.size else 1.0
                # rounding of a cancelling result is proportional to the size of the operands, not of the result
                S = 1.0
                for a_ in args:
                    if isinstance(a_, np.ndarray) and a_.size and a_.dtype.kind in 'fc':
                        S *= max(1.0, float(np.max(np.abs(a_)))) * max(1.0, float(a_.shape[-1] if a_.ndim else 1))
                if r.size and not np.max(np.abs(g - r)) <= (self.TOL * max(sc, 1e-3) + 1e-14 * S) * _epsfac([g], [c for (_, _, c) in ev.snaps]):
                    self.ctx.violation('zeroth:%s:value' % name, {'call': name, 'output': k, 'direction': p, 'P': P, 'err': float(np.max(np.abs(g - r)) / sc)}); return
            if single and name not in PARTIAL and name != 'argmax':
                r = refs[0]
                bad = None
                if res.shape != r.shape:
                    bad = ('shape', res.shape, r.shape)
                elif res.ndim != r.ndim:
                    bad = ('ndim', res.ndim, r.ndim)
                elif res.size != r.size:
                    bad = ('size', res.size, r.size)
                elif r.ndim >= 1 and len(res) != len(r):
                    bad = ('len', len(res), len(r))
                if bad:
                    self.ctx.violation('zeroth:%s:%s' % (name, bad[0]), {'call': name, 'got': bad[1], 'want': bad[2]}); return
        self.ctx.ok('zeroth:' + name, ('z', name, P, tuple(c.shape[2:] for (_, _, c) in ua)))

    @staticmethod
    def _partial_ref(name, args):
        A0 = np.asarray(args[0])
        if name == 'eigh':
            w, V = np.linalg.eigh(A0)
            return (w,)
        if name == 'eig':
            return (np.sort_complex(np.linalg.eigvals(A0)),)
        return (np.linalg.svd(A0, compute_uv=False),)

    @staticmethod
    def _partial_got(name, gots):
        if name == 'eigh':
            return [gots[0]]
        if name == 'eig':
            return [np.sort_complex(np.asarray(gots[0]))]
        return [gots[1]]

    def _compare(self, ev, res):
        a, b = ev.args[0], ev.args[1]
        snap = {pth: (o, c) for (pth, o, c) in ev.snaps}

        def z(i, v):
            if ('a', i) in snap:
                o, c = snap[('a', i)]
                return c[0] if isinstance(o, UTPM) else c
            return v
        x0, y0 = z(0, a), z(1, b)
        try:
            # NumPy's comparison of the values, direction by direction (the leading axis of a polynomial's zeroth coefficient is the
            # direction axis: it must not take part in the broadcasting of the value axes)
            xu, yu = isinstance(a, UTPM), isinstance(b, UTPM)
            Px = np.shape(x0)[0] if xu else 1
            Py = np.shape(y0)[0] if yu else 1
            want = True
            for pp in range(max(Px, Py)):
                xp = x0[min(pp, Px - 1)] if xu else x0
                yp = y0[min(pp, Py - 1)] if yu else y0
                want = want and bool(np.all(CMP[ev.name](xp, yp)))
        except Exception:
            self.ctx.skip('numpy-rejects:' + ev.name); return
        if bool(res) != want:
            self.ctx.violation('compare:%s' % ev.name, {'call': ev.name, 'got': bool(res), 'want': want, 'x0': np.asarray(x0).tolist(), 'y0': np.asarray(y0).tolist()}); return
        self.ctx.ok('compare:' + ev.name, ('cmp', ev.name, want, np.shape(x0)))
