"""Online monitors subscribed to the probe layer.

ImmutabilityMonitor (C14a)  - byte snapshots of every argument before/after every public call
DirectionMonitor    (C11)   - shadow re-execution per direction
TruncationMonitor   (C12)   - shadow re-execution on truncated inputs
ZerothMonitor       (C10)   - NumPy/SciPy on the zeroth coefficients, shape/len/size/ndim, comparisons
SliceMonitor        (C13)   - slice-wise NumPy model of the shape-manipulating operations

Every monitor only fires inside its guard; anything else is a counted skip."""
import operator
import numpy as np
import scipy.linalg, scipy.special
import algopy
from algopy import UTPM
from algopy.tracer.tracer import CGraph, Function
from .probe import Monitor

INPLACE = {'__iadd__': 0, '__isub__': 0, '__imul__': 0, '__itruediv__': 0, '__idiv__': 0, '__setitem__': 0, 'set_zero': 0}
# names whose semantics depend on D or P by design (not subject to the C11/C12 shadows)
STRUCTURAL = {'shift', 'init_jacobian', 'init_jac_vec', 'init_hessian', 'init_hess_vec', 'init_tensor', 'extract_jacobian',
              'extract_jac_vec', 'extract_hessian', 'extract_hess_vec', 'extract_tensor', 'FtoJT', 'JTtoF', 'coeff_op',
              'combine_blocks', 'as_utpm', 'clone', 'copy', 'zeros_like', 'ones_like', 'zeros', '__len__', 'get_flat',
              '__setitem__', 'set_zero', 'iouter', 'broadcast', 'piv2mat', 'piv2det', 'eigh1', 'lu_factor'}


def _datas(res):
    """list of coefficient arrays of a result (UTPM or tuple/list of UTPMs); None if there is nothing comparable"""
    if isinstance(res, UTPM):
        return [res.data]
    if isinstance(res, (tuple, list)) and res and all(isinstance(r, UTPM) for r in res):
        return [r.data for r in res]
    return None


def _scale(d):
    """cumulative per-order magnitude s[k] = max_{j<=k} max|d[j]| (shape (D,1..))"""
    D = d.shape[0]
    m = np.abs(d).reshape(D, -1).max(axis=1) if d.size else np.zeros(D)
    return np.maximum.accumulate(m) + 1e-300


class ImmutabilityMonitor(Monitor):
    """C14(a): no non-in-place call modifies the coefficient data of its arguments; in-place operators modify only
    the left operand; pb_* only their `out=` accumulators; tracer calls leave the user's objects untouched."""
    max_depth = 99

    def _allowed(self, ev):
        ok = set()
        if ev.name in INPLACE:
            ok.add(('a', INPLACE[ev.name]))
        if ev.name.startswith('pb_'):
            ok.add(('k', 'out'))
            if ev.name in ('pb___setitem__', 'pb_setitem'):
                ok.add(('a', 0))
        if ev.name in ('iouter',):
            ok.add(('a', 2))
        if ev.name == 'shift':
            ok.add(('k', 'out')); ok.add(('a', 2))
        for k in ('out',):
            ok.add(('k', k))
        return ok

    def _check(self, ev, raised):
        allowed = self._allowed(ev)
        ncmp = 0
        mutable = [(o.data if isinstance(o, UTPM) else o) for (pth, o, _) in ev.snaps if any(pth[:len(a)] == a for a in allowed)]
        for (path, obj, before) in ev.snaps:
            if any(path[:len(a)] == a for a in allowed):
                continue
            now = obj.data if isinstance(obj, UTPM) else obj
            if any(np.may_share_memory(now, m) for m in mutable):
                continue          # the argument aliases the operand that is allowed to change (x op= view_of_x, ybar a view of xbar)
            ncmp += 1
            same = now.shape == before.shape and (now.tobytes() == before.tobytes() if now.flags['C_CONTIGUOUS'] else np.array_equal(now, before, equal_nan=True))
            if not same:
                kind = 'pullback' if ev.name.startswith('pb_') else ('tracer' if ev.kind == 'tracer' else ('inplace-other-operand' if ev.name in INPLACE else 'operation'))
                self.ctx.violation('modified-argument:%s:%s' % (kind, ev.name),
                                   {'call': ev.name, 'argument': list(path), 'depth': ev.depth, 'raised': raised,
                                    'n_changed': int(np.sum(now != before)) if now.shape == before.shape else -1})
                return
        if ncmp:
            self.ctx.ok('immutability:' + ('pb' if ev.name.startswith('pb_') else ('tracer' if ev.kind == 'tracer' else 'op')),
                        ('imm', ev.name, ev.depth > 0))
            self.ctx.ops['immutability:name:' + ev.name] += 1

    def on_return(self, ev, res):
        self._check(ev, False)

    def on_raise(self, ev, exc):
        self._check(ev, True)


class DirectionMonitor(Monitor):
    """C11: the result for direction p equals the result of the same call on the single-direction input"""
    TOL = 1e-11

    def on_return(self, ev, res):
        if ev.depth > self.max_depth or ev.kind == 'tracer' or ev.name in STRUCTURAL or ev.name.startswith('pb_'):
            return
        ua = ev.utpm_args()
        if not ua:
            return
        if not all(np.all(np.isfinite(c)) for (_, _, c) in ev.snaps):
            self.ctx.skip('nonfinite-input'); return
        Ps = {c.shape[1] for (_, _, c) in ua}
        if len(Ps) != 1:
            self.ctx.skip('mixed-P'); return
        P = Ps.pop()
        if P < 2:
            self.ctx.skip('P=1'); return
        full = _datas(res if ev.name not in INPLACE else ev.args[0])
        if full is None:
            self.ctx.skip('no-utpm-result:' + ev.name); return
        if not all(np.all(np.isfinite(a)) for a in full):
            self.ctx.skip('nonfinite-result'); return
        f = getattr(ev.owner, ev.name)
        for p in range(P):
            args, kwargs = ev.rebuild(lambda c: c[:, p:p + 1].copy())
            try:
                r1 = f(*args, **kwargs)
            except Exception as e:
                self.ctx.violation('direction:%s:single-direction-raises' % ev.name, {'call': ev.name, 'direction': p, 'error': repr(e)[:200]}); return
            one = _datas(r1 if ev.name not in INPLACE else args[0])
            if one is None or len(one) != len(full):
                self.ctx.skip('no-utpm-result:' + ev.name); return
            for a, b in zip(full, one):
                if a[:, p:p + 1].shape != b.shape:
                    self.ctx.violation('direction:%s:shape' % ev.name, {'call': ev.name, 'direction': p, 'full': a.shape, 'single': b.shape}); return
                s = _scale(b)
                err = np.abs(a[:, p:p + 1] - b).reshape(b.shape[0], -1).max(axis=1) if b.size else np.zeros(b.shape[0])
                if not np.all(err <= self.TOL * s):
                    d_bad = int(np.argmax(err / s))
                    self.ctx.violation('direction:%s:value' % ev.name, {'call': ev.name, 'direction': p, 'P': P, 'first_bad_order': d_bad,
                                                                       'err_over_scale': float(np.max(err / s))}); return
                self.ctx.noise['direction'] = max(self.ctx.noise.get('direction', 0.0), float(np.max(err / s)))
        self.ctx.ok('direction:' + ev.name, ('dir', ev.name, P, tuple(c.shape[2:] for (_, _, c) in ua)))


class TruncationMonitor(Monitor):
    """C12: coefficients of order < D' computed with D coefficients equal the result on inputs truncated to D'"""
    TOL = 1e-11

    def __init__(self, ctx, all_orders=False):
        Monitor.__init__(self, ctx)
        self.all_orders = all_orders

    def on_return(self, ev, res):
        if ev.depth > self.max_depth or ev.kind == 'tracer' or ev.name in STRUCTURAL or ev.name.startswith('pb_'):
            return
        ua = ev.utpm_args()
        if not ua:
            return
        if not all(np.all(np.isfinite(c)) for (_, _, c) in ev.snaps):
            self.ctx.skip('nonfinite-input'); return
        Ds = {c.shape[0] for (_, _, c) in ua}
        if len(Ds) != 1:
            self.ctx.skip('mixed-D'); return
        D = Ds.pop()
        if D < 2:
            self.ctx.skip('D=1'); return
        if ev.name == 'eig':
            self.ctx.skip('eig: D<=2 only'); return
        full = _datas(res if ev.name not in INPLACE else ev.args[0])
        if full is None:
            self.ctx.skip('no-utpm-result:' + ev.name); return
        if not all(np.all(np.isfinite(a)) for a in full):
            self.ctx.skip('nonfinite-result'); return
        f = getattr(ev.owner, ev.name)
        orders = range(1, D) if self.all_orders else sorted({1, D - 1, 1 + (D * 7919) % (D - 1)})
        for Dp in orders:
            args, kwargs = ev.rebuild(lambda c: c[:Dp].copy())
            try:
                r1 = f(*args, **kwargs)
            except Exception as e:
                self.ctx.violation('truncation:%s:truncated-raises' % ev.name, {'call': ev.name, 'D': D, 'Dp': Dp, 'error': repr(e)[:200]}); return
            one = _datas(r1 if ev.name not in INPLACE else args[0])
            if one is None or len(one) != len(full):
                self.ctx.skip('no-utpm-result:' + ev.name); return
            pairs = list(zip(full, one))
            if ev.name in ('eigh', 'svd'):
                # eigen/singular vectors are uniquely defined only for distinct eigenvalues of A_0
                lam = full[0][0] if ev.name == 'eigh' else full[1][0]
                gaps = np.abs(np.diff(np.sort(lam, axis=-1), axis=-1))
                if gaps.size and np.min(gaps) < 1e-6:
                    pairs = [pairs[0]] if ev.name == 'eigh' else [pairs[1]]
                    self.ctx.skip('eigenvectors-not-unique (repeated eigenvalues)')
            for a, b in pairs:
                if a[:Dp].shape != b.shape:
                    self.ctx.violation('truncation:%s:shape' % ev.name, {'call': ev.name, 'D': D, 'Dp': Dp, 'full': a.shape, 'truncated': b.shape}); return
                s = _scale(b)
                err = np.abs(a[:Dp] - b).reshape(Dp, -1).max(axis=1) if b.size else np.zeros(Dp)
                if not np.all(err <= self.TOL * s):
                    self.ctx.violation('truncation:%s:value' % ev.name, {'call': ev.name, 'D': D, 'Dp': Dp, 'first_bad_order': int(np.argmax(err / s)),
                                                                        'err_over_scale': float(np.max(err / s))}); return
                self.ctx.noise['truncation'] = max(self.ctx.noise.get('truncation', 0.0), float(np.max(err / s)))
        self.ctx.ok('truncation:' + ev.name, ('trunc', ev.name, D, tuple(c.shape[2:] for (_, _, c) in ua)))
