"""Run context shared by all checks: counters, three-valued per-event verdicts, violation
de-duplication by mechanism, known-findings classification, evidence writing."""
import os, sys, json, time, hashlib, fnmatch, collections, traceback
from . import boot

VERIF = boot.VERIF
KNOWN_FILE = os.path.join(VERIF, 'known_findings.json')
MAX_SAMPLES = 12


def case_seed(*parts):
    h = hashlib.sha256(repr(parts).encode()).digest()
    return int.from_bytes(h[:6], 'big')


class Ctx:
    """accumulates what one check (or one shard of it) observed"""

    def __init__(self, pid, tier='quick', seed=0):
        self.pid, self.tier, self.seed = pid, tier, int(seed)
        self.evaluations = 0            # comparisons with verdict checked-ok or violated
        self.cases = 0                  # generated cases executed
        self.classes = collections.Counter()   # distinct non-trivial classes -> count
        self.ops = collections.Counter()       # per operation class: checked-ok events
        self.skips = collections.Counter()
        self.known = collections.Counter()
        self.violations = {}            # mech -> witness (first = smallest seen)
        self.violation_count = collections.Counter()
        self.monitor_errors = []
        self.noise = {}
        self.samples = []
        self.extra = {}
        self.bitexact = 0
        self.t0 = time.time()
        self.current_case = None

    # --- per-event verdicts -------------------------------------------------------------
    def ok(self, op, cls=None, noise=None, sample=None, exact=False):
        self.evaluations += 1
        self.ops[op] += 1
        if cls is not None:
            self.classes[cls if isinstance(cls, str) else repr(cls)] += 1
        if noise is not None:
            v = float(noise)
            if v == v and v > self.noise.get(op, 0.0):
                self.noise[op] = v
        if exact:
            self.bitexact += 1
        if sample is not None and len(self.samples) < MAX_SAMPLES:
            self.samples.append(sample)

    def skip(self, reason):
        self.skips[reason] += 1

    def violation(self, mech, witness):
        """mech: mechanism key (op + argument class, never seeds/values); witness: json-able dict"""
        self.evaluations += 1
        self.violation_count[mech] += 1
        w = dict(witness)
        if self.current_case is not None and 'case' not in w:
            w['case'] = self.current_case
        old = self.violations.get(mech)
        if old is None or _size(w) < _size(old):
            self.violations[mech] = w

    def monitor_error(self, where, exc=None):
        if len(self.monitor_errors) < 20:
            self.monitor_errors.append({'where': where, 'error': repr(exc),
                                        'tb': traceback.format_exc()[-1500:] if exc is not None else '',
                                        'case': self.current_case})
        else:
            self.monitor_errors.append(None)

    # --- (de)serialisation for shard merging -----------------------------------------------
    def dump(self):
        return {'pid': self.pid, 'evaluations': self.evaluations, 'cases': self.cases,
                'classes': dict(self.classes), 'ops': dict(self.ops), 'skips': dict(self.skips),
                'known': dict(self.known), 'violations': self.violations,
                'violation_count': dict(self.violation_count),
                'monitor_errors': [m for m in self.monitor_errors if m][:20],
                'n_monitor_errors': len(self.monitor_errors),
                'noise': self.noise, 'samples': self.samples, 'extra': self.extra,
                'bitexact': self.bitexact}

    def merge(self, d):
        self.evaluations += d['evaluations']; self.cases += d['cases']
        self.classes.update(d['classes']); self.ops.update(d['ops']); self.skips.update(d['skips'])
        self.known.update(d['known']); self.violation_count.update(d['violation_count'])
        for m, w in d['violations'].items():
            if m not in self.violations or _size(w) < _size(self.violations[m]):
                self.violations[m] = w
        self.monitor_errors.extend(d['monitor_errors'])
        self.monitor_errors.extend([None] * max(0, d['n_monitor_errors'] - len(d['monitor_errors'])))
        for k, v in d['noise'].items():
            self.noise[k] = max(self.noise.get(k, 0.0), v)
        for s in d['samples']:
            if len(self.samples) < MAX_SAMPLES:
                self.samples.append(s)
        for k, v in d['extra'].items():
            if isinstance(v, (int, float)) and isinstance(self.extra.get(k, 0), (int, float)):
                self.extra[k] = self.extra.get(k, 0) + v
            elif isinstance(v, list):
                self.extra[k] = sorted(set(self.extra.get(k, [])) | set(v))
            elif isinstance(v, dict):
                dd = self.extra.setdefault(k, {})
                for kk, vv in v.items():
                    dd[kk] = dd.get(kk, 0) + vv if isinstance(vv, (int, float)) else vv
            else:
                self.extra[k] = v
        self.bitexact += d['bitexact']


def _size(w):
    c = w.get('case') or {}
    p = c.get('params', {}) if isinstance(c, dict) else {}
    s = 0
    for k in ('D', 'P', 'n', 'N', 'len', 'size'):
        v = p.get(k) if isinstance(p, dict) else None
        if isinstance(v, int):
            s += v
    return s


# --- known findings ------------------------------------------------------------------------

def load_known():
    if not os.path.exists(KNOWN_FILE):
        return {'open': [], 'fixed': []}
    return json.load(open(KNOWN_FILE))


def classify(pid, mech, known):
    """returns the open finding that lists this mechanism for this property, or None"""
    for f in known.get('open', []):
        if pid in f.get('properties', [f.get('property')]) and any(fnmatch.fnmatchcase(mech, pat) for pat in f['mechanisms']):
            return f
    return None


# --- final verdict + evidence -----------------------------------------------------------------

def finish(ctx, required_ops, rule, level='exploration', assumptions=(), exhaustive=None,
           min_classes=2, extra_cov=None):
    """prints the verdict lines, writes evidence and replay files, returns the exit code"""
    known = load_known()
    pid = ctx.pid
    wall = time.time() - ctx.t0
    real, listed = [], []
    for mech, w in sorted(ctx.violations.items()):
        f = classify(pid, mech, known)
        (listed if f else real).append((mech, w, f))
    outroot = VERIF
    if os.environ.get('VERIF_NO_EVIDENCE'):        # mutant / self-test runs must not touch the committed evidence
        import tempfile
        outroot = os.path.join(tempfile.gettempdir(), 'verif_scratch_%d%s' % (os.getuid(), os.environ.get('VERIF_SCRATCH_TAG', '')))
    rdir = os.path.join(outroot, 'replays', pid)
    lines = []
    by_finding = collections.OrderedDict()
    for mech, w, f in listed:
        by_finding.setdefault(f['id'], (f, []))[1].append(mech)
    for fid, (f, mechs) in by_finding.items():          # one line per listed finding
        lines.append('KNOWN-FINDING: property=%s %s [%s; observed %d times, mechanisms %s]' % (
            pid, f['what'], fid, sum(ctx.violation_count[m] for m in mechs), ', '.join(mechs)))
    for mech, w, f in real:
        os.makedirs(rdir, exist_ok=True)
        path = os.path.join(rdir, _safe(mech) + '.json')
        json.dump({'property': pid, 'mechanism': mech, 'tier': ctx.tier, 'seed': ctx.seed,
                   'witness': w}, open(path, 'w'), indent=1, default=str)
        lines.append('VIOLATION property=%s replay=%s  # %s: %s' % (pid, path, mech, _short(w)))
    missing = [op for op in required_ops if ctx.ops.get(op, 0) == 0
               and not any(m.startswith(op + ':') or m.split(':')[0] == op for m in ctx.violations)]
    inconclusive = []
    if missing:
        inconclusive.append('deciding monitor never reached for: ' + ','.join(missing[:12]))
    if ctx.monitor_errors:
        inconclusive.append('%d monitor errors (first: %s)' % (len(ctx.monitor_errors),
                            (ctx.monitor_errors[0] or {}).get('error')))
    if ctx.evaluations == 0:
        inconclusive.append('nothing was observed')
    cov = {
        'evaluations': int(ctx.evaluations),
        'distinct_nontrivial': int(len(ctx.classes)),
        'rule': rule,
        'samples': ctx.samples[:MAX_SAMPLES] or [{'note': 'no sample recorded'}],
        'cases_executed': int(ctx.cases),
        'checked_ok_per_operation': dict(sorted(ctx.ops.items())),
        'skipped_by_reason': dict(ctx.skips),
        'known_finding_events': dict(ctx.known),
        'violating_mechanisms': {m: ctx.violation_count[m] for m in ctx.violations},
        'largest_err_over_majorant': {k: float('%.3g' % v) for k, v in sorted(ctx.noise.items())},
        'bit_exact_comparisons': int(ctx.bitexact),
        'monitor_errors': len(ctx.monitor_errors),
        'inconclusive_reasons': inconclusive,
    }
    if exhaustive is not None:
        cov['exhaustive'] = bool(exhaustive)
    rl = ctx.extra.pop('reached_library_functions', None)
    cov.update(ctx.extra)
    if rl is not None:
        cov['reached_library_functions'] = len(rl)
        cov['reached_library_functions_list'] = rl
    if extra_cov:
        cov.update(extra_cov)
    ev = {'property_id': pid, 'tier': ctx.tier, 'seed': ctx.seed, 'level': level, 'coverage': cov,
          'assumptions': list(assumptions), 'wall_s': round(wall, 2), 'violations': len(real)}
    os.makedirs(os.path.join(outroot, 'evidence'), exist_ok=True)
    _validate(ev)
    json.dump(ev, open(os.path.join(outroot, 'evidence', pid + '.json'), 'w'), indent=1, default=str)
    for l in lines:
        print(l)
    print('%s tier=%s seed=%d: %d cases, %d checked events, %d distinct classes, %d violating mechanisms '
          '(%d listed as known), %d skipped, %.1fs' % (pid, ctx.tier, ctx.seed, ctx.cases, ctx.evaluations,
                                                     len(ctx.classes), len(ctx.violations), len(listed),
                                                     sum(ctx.skips.values()), wall))
    if real:
        return 1
    if inconclusive or len(ctx.classes) < min_classes:
        print('INCONCLUSIVE property=%s reason=%s' % (pid, '; '.join(inconclusive) or 'too few classes'))
        for m in ctx.monitor_errors[:3]:
            if m:
                print('  monitor error at %s: %s\n%s' % (m['where'], m['error'], m['tb']))
        return 2
    return 0


def _validate(ev):
    try:
        import jsonschema
        schema = json.load(open('/root/.vp/EVIDENCE.schema.json'))
        jsonschema.validate(json.loads(json.dumps(ev, default=str)), schema)
    except ImportError:
        pass
    except FileNotFoundError:
        pass


def _safe(s):
    return ''.join(c if c.isalnum() or c in '-_.' else '_' for c in s)[:120]


def _short(w):
    s = json.dumps({k: v for k, v in w.items() if k != 'case'}, default=str)
    return s[:300]
