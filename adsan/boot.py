"""Bootstrapping: locate /verif, install third-party deps offline, import the SUT from the
working tree under test and make sure it really is that tree (and not /venv's installed copy).

Order matters: algopy is imported BEFORE /verif/.deps is put on sys.path, because
algopy.nthderiv probes for mpmath at import time and would change its export list.
"""
import os, sys, subprocess, fcntl

VERIF = os.path.dirname(os.path.dirname(os.path.abspath(__file__)))
DEPS = os.path.join(VERIF, '.deps')
WHEELS = '/opt/veriftools/wheels'
PKGS = ['mpmath', 'icontract', 'jsonschema']
sys.dont_write_bytecode = True


def repo_path():
    return os.path.realpath(os.environ.get('ALGOPY_REPO', '/repo'))


def ensure_deps():
    """idempotent, race-free offline install of the oracle/contract libraries into /verif/.deps"""
    marker = os.path.join(DEPS, '.installed')
    if os.path.exists(marker):
        return
    os.makedirs(DEPS, exist_ok=True)
    with open(os.path.join(DEPS, '.lock'), 'w') as lk:
        fcntl.flock(lk, fcntl.LOCK_EX)
        if os.path.exists(marker):
            return
        cmd = [sys.executable, '-m', 'pip', 'install', '--quiet', '--no-index', '--find-links', WHEELS,
               '--target', DEPS, '--upgrade'] + PKGS
        env = dict(os.environ, PIP_NO_INDEX='1', PIP_DISABLE_PIP_VERSION_CHECK='1')
        r = subprocess.run(cmd, env=env, stdout=subprocess.PIPE, stderr=subprocess.STDOUT, text=True)
        if r.returncode != 0:
            sys.stderr.write(r.stdout)
            raise SystemExit(2)
        open(marker, 'w').write('ok\n')


_algopy = None


def load_sut():
    """import algopy from the tree under test; exit 2 (inconclusive) when a different copy got imported"""
    global _algopy
    if _algopy is not None:
        return _algopy
    rp = repo_path()
    assert 'mpmath' not in sys.modules, 'mpmath imported before the SUT'
    if DEPS in sys.path:
        sys.path.remove(DEPS)
    sys.path.insert(0, rp)
    import warnings
    warnings.simplefilter('ignore', SyntaxWarning)
    import algopy
    f = os.path.realpath(algopy.__file__)
    if not f.startswith(rp + os.sep):
        print('INCONCLUSIVE reason=algopy imported from %s, not from %s' % (f, rp))
        raise SystemExit(2)
    if getattr(algopy.nthderiv.nthderiv, 'mpmath', None) is not None:
        print('INCONCLUSIVE reason=SUT saw mpmath at import time')
        raise SystemExit(2)
    ensure_deps()
    sys.path.append(DEPS)
    _algopy = algopy
    return algopy
