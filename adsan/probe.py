"""ADSan probe layer: wraps the public boundary of the SUT by attribute assignment on the live classes
(no source hooks), turns every call into a call/return event and feeds the subscribed online monitors.

* boundary, not implementation: nested public calls made by algopy itself carry depth > 0;
* re-entrancy: monitors run under `suppress`, so shadow executions produce no events;
* a failure inside a monitor is a monitor error, never a violation."""
import functools, types
import numpy as np
import algopy
from algopy import UTPM
from algopy.tracer.tracer import CGraph, Function


class _State:
    depth = 0
    suppress = False
    monitors = ()
    installed = False
    originals = {}
    calls = 0
    by_name = None


S = _State()

SKIP_NAMES = {'__init__', '__repr__', '__str__', '__class__', '__new__', '__getattribute__', '__setattr__', '__dict__',
              '__weakref__', '__doc__', '__module__', '__array_priority__', '__hash__', '__zeros__', '__zeros_like__',
              'get_shape', 'get_size', 'get_ndim', 'get_owndata', 'get_flat', 'get_transpose', 'set_transpose', 'dtype',
              'shape', 'size', 'ndim', 'owndata', 'flat', 'T', 'data', 'build_PL', 'build_PU', 'totype'}

TRACER_NAMES = {CGraph: ['pushforward', 'pullback', 'function', 'gradient', 'jacobian', 'hessian', 'jac_vec', 'vec_jac',
                         'hess_vec', 'vec_hess', 'vec_hess_vec'],
                Function: ['__init__']}


class Event:
    __slots__ = ('name', 'owner', 'args', 'kwargs', 'depth', 'snaps', 'kind')

    def __init__(self, name, owner, args, kwargs, depth, kind):
        self.name, self.owner, self.args, self.kwargs, self.depth, self.kind = name, owner, args, kwargs, depth, kind
        self.snaps = []           # (path, object, copy-of-bytes)
        for i, a in enumerate(args):
            self._snap(('a', i), a, 0)
        for k, v in kwargs.items():
            self._snap(('k', k), v, 0)

    def _snap(self, path, a, lvl):
        if isinstance(a, UTPM):
            d = getattr(a, 'data', None)
            if isinstance(d, np.ndarray) and d.dtype != object:
                self.snaps.append((path, a, d.copy()))
        elif isinstance(a, np.ndarray):
            if a.dtype != object:
                self.snaps.append((path, a, a.copy()))
        elif isinstance(a, (list, tuple)) and lvl < 2:
            for j, e in enumerate(a):
                self._snap(path + (j,), e, lvl + 1)

    def utpm_args(self):
        return [(p, o, c) for (p, o, c) in self.snaps if isinstance(o, UTPM)]

    def rebuild(self, transform=None):
        """fresh (args, kwargs) from the pre-call snapshots; UTPM data passed through `transform`"""
        snap = {p: (o, c) for (p, o, c) in self.snaps}

        def rb(path, a, lvl):
            if path in snap:
                o, c = snap[path]
                if isinstance(o, UTPM):
                    return UTPM(transform(c) if transform else c.copy())
                return c.copy()
            if isinstance(a, (list, tuple)) and lvl < 2:
                r = [rb(path + (j,), e, lvl + 1) for j, e in enumerate(a)]
                return type(a)(r) if isinstance(a, tuple) else r
            return a
        args = tuple(rb(('a', i), a, 0) for i, a in enumerate(self.args))
        kwargs = {k: rb(('k', k), v, 0) for k, v in self.kwargs.items()}
        return args, kwargs


def _wrap(owner, name, func, kind):
    """kind: 'method' (self first), 'classmethod' (cls stripped), 'tracer'"""
    @functools.wraps(func)
    def wrapper(*args, **kwargs):
        if S.suppress or not S.monitors:
            return func(*args, **kwargs)
        S.calls += 1
        depth = S.depth
        ev = None
        uargs = args[1:] if kind == 'classmethod' else args
        try:
            S.suppress = True
            try:
                ev = Event(name, owner, uargs, kwargs, depth, kind)
            finally:
                S.suppress = False
        except Exception as e:      # snapshotting must never break the SUT
            for m in S.monitors:
                m.error('snapshot:' + name, e)
            ev = None
        S.depth = depth + 1
        try:
            res = func(*args, **kwargs)
        except BaseException as exc:
            S.depth = depth
            if ev is not None:
                _dispatch(ev, None, exc)
            raise
        S.depth = depth
        if ev is not None:
            _dispatch(ev, res, None)
        return res
    wrapper.__adsan_original__ = func
    return wrapper


def _dispatch(ev, res, exc):
    S.suppress = True
    try:
        for m in S.monitors:
            try:
                if exc is None:
                    m.on_return(ev, res)
                else:
                    m.on_raise(ev, exc)
            except Exception as e:
                m.error('monitor:%s:%s' % (type(m).__name__, ev.name), e)
    finally:
        S.suppress = False


def original(owner, name):
    """the unwrapped callable (bound for classmethods) - for use inside monitors"""
    return getattr(owner, name)        # monitors run under suppress, wrappers pass straight through


def install(monitors):
    S.monitors = tuple(monitors)
    if S.installed:
        return
    S.installed = True
    skipped = []
    for name, attr in list(UTPM.__dict__.items()):
        if name in SKIP_NAMES or isinstance(attr, property):
            continue
        if isinstance(attr, classmethod):
            f = attr.__func__
            S.originals[(UTPM, name)] = attr
            setattr(UTPM, name, classmethod(_wrap(UTPM, name, f, 'classmethod')))
        elif isinstance(attr, types.FunctionType):
            S.originals[(UTPM, name)] = attr
            setattr(UTPM, name, _wrap(UTPM, name, attr, 'method'))
        else:
            skipped.append(name)
    for cls, names in TRACER_NAMES.items():
        for name in names:
            attr = cls.__dict__.get(name)
            if isinstance(attr, types.FunctionType):
                S.originals[(cls, name)] = attr
                setattr(cls, name, _wrap(cls, name, attr, 'tracer'))
    S.skipped = skipped


def uninstall():
    for (cls, name), attr in S.originals.items():
        setattr(cls, name, attr)
    S.originals.clear()
    S.installed = False
    S.monitors = ()


class Monitor:
    """base class: subclasses implement on_return / on_raise and record into self.ctx"""
    max_depth = 0

    def __init__(self, ctx):
        self.ctx = ctx

    def on_return(self, ev, res):
        pass

    def on_raise(self, ev, exc):
        pass

    def error(self, where, exc):
        self.ctx.monitor_error(where, exc)
