"""C16 - closed-form n-th derivatives (algopy.nthderiv) are the true derivatives.
Monitor: postcondition on every exported function; oracle mp.diff (60 digits) scaled by
max(|ref|, 1e-4 * Cauchy bound) so that zeros of a derivative do not blow up a relative error."""
import math
import numpy as np
import mpmath as mp
import algopy
from algopy import nthderiv as ND
from ..core import case_seed
from .. import mporacle as O, gen

PID = 'C16'
TAU = 1e-8
TAU_FN = {'hyperu': 1e-6}      # scipy.special.hyperu itself is only ~1e-9 accurate at shifted parameters
RULE = ('every function exported by algopy.nthderiv x order n in 0..nmax in shuffled sequence (plus n in {16,22,30} at random points) x evaluation point (random in the declared domain at '
        'distance >= delta from singularities, plus hostile points inside the domain: 0, +-tiny, integers, large, the largest arguments with representable values) x '
        'extra parameters; value compared with mp.diff of the mpmath function; a class = (function, params, n, point class); '
        'non-trivial = n>=1 or the n=0 value check against NumPy/SciPy')
ASSUMPTIONS = ['mpmath functions and mp.diff at 60 digits are the reference',
               'tan/tanh are exported only when mpmath is importable by the library; it is not in /venv, so they are out of reach here',
               'scipy.special evaluation of the shifted parameters is trusted to 1e-8 relative']

# name -> (mp function factory(params), singularity distance function(x, params) or None for entire, declared domain sampler)
ENTIRE = lambda x, prm: 2.0


def _dist_pole0(x, prm):
    return abs(x)


def _dist_nonpos_int(x, prm):
    if x > 0:
        return x
    return min(abs(x - k) for k in range(0, -int(abs(x)) - 2, -1))


TABLE = {
    'exp': (lambda: mp.exp, ENTIRE, 'R'), 'exp2': (lambda: (lambda x: mp.mpf(2) ** x), ENTIRE, 'R'),
    'expm1': (lambda: mp.expm1, ENTIRE, 'R'),
    'log': (lambda: mp.log, _dist_pole0, 'pos'), 'log2': (lambda: (lambda x: mp.log(x) / mp.log(2)), _dist_pole0, 'pos'),
    'log10': (lambda: mp.log10, _dist_pole0, 'pos'), 'log1p': (lambda: mp.log1p, lambda x, p: abs(1 + x), 'gtm1'),
    'sqrt': (lambda: mp.sqrt, _dist_pole0, 'pos'), 'square': (lambda: (lambda x: x * x), ENTIRE, 'R'),
    'negative': (lambda: (lambda x: -x), ENTIRE, 'R'), 'reciprocal': (lambda: (lambda x: 1 / x), _dist_pole0, 'nz'),
    'sin': (lambda: mp.sin, ENTIRE, 'R'), 'cos': (lambda: mp.cos, ENTIRE, 'R'),
    'arcsin': (lambda: mp.asin, lambda x, p: 1 - abs(x), 'unit'), 'arccos': (lambda: mp.acos, lambda x, p: 1 - abs(x), 'unit'),
    'arctan': (lambda: mp.atan, lambda x, p: math.hypot(1, x), 'R'),
    'sinh': (lambda: mp.sinh, ENTIRE, 'R'), 'cosh': (lambda: mp.cosh, ENTIRE, 'R'),
    'arcsinh': (lambda: mp.asinh, lambda x, p: math.hypot(1, x), 'R'),
    'arccosh': (lambda: mp.acosh, lambda x, p: x - 1, 'gt1'),
    'arctanh': (lambda: mp.atanh, lambda x, p: 1 - abs(x), 'unit'),
    'erf': (lambda: mp.erf, ENTIRE, 'R'), 'erfi': (lambda: mp.erfi, ENTIRE, 'R'),
    'gammaln': (lambda: mp.loggamma, _dist_pole0, 'pos'),
    'psi': (lambda: mp.digamma, _dist_nonpos_int, 'Rpoles'),
    'polygamma': (lambda m: (lambda x: mp.psi(m, x)), _dist_nonpos_int, 'Rpoles'),
    'hyperu': (lambda a, b: (lambda x: mp.hyperu(a, b, x)), _dist_pole0, 'pos'),
}
HIGH_ORDER_FNS = ['arcsin', 'arccos', 'arctan', 'arcsinh', 'arctanh', 'arccosh', 'erf', 'erfi', 'exp', 'expm1', 'log', 'log1p', 'sqrt', 'reciprocal', 'sin', 'cos', 'sinh', 'cosh', 'exp2', 'log2', 'log10', 'square']
PIECEWISE = ['rint', 'fix', 'floor', 'ceil', 'trunc', 'sign', 'absolute', 'clip']
HYPERU_PARAMS = [(0.5, 0.75), (1.0, 1.5), (1.5, 2.25), (2.5, 0.75), (-0.5, 1.5), (-1.5, 0.75), (-1.0, 1.5), (-2.0, 0.75), (-3, 0.5), (0.0, 1.25)]   # incl. the polynomial cases a = 0, -1, -2, ...
POLYGAMMA_M = [0, 1, 2, 3]
NEAR_OVERFLOW = {'exp': [709.7], 'exp2': [1023.9], 'expm1': [709.7], 'sinh': [710.4, -710.4], 'cosh': [710.4, -710.4]}


def _points(name, dom, rng, tier):
    """(point, class) list: random + hostile points of the declared domain"""
    k = 3 if tier == 'quick' else 25
    pts = []
    if dom == 'R':
        pts += [(float(v), 'random') for v in rng.normal(size=k) * 1.5]
        pts += [(0.0, 'zero'), (1e-9, 'tiny'), (-1e-9, 'tiny'), (1.0, 'integer'), (-2.0, 'integer'), (6.5, 'large'), (-7.25, 'large')]
        if name in ('sin', 'cos'):
            pts += [(1e10, 'huge'), (-3e15, 'huge'), (1e-12, 'tiny')]          # bounded functions: every derivative is as accurate as numpy.sin there
        # the last arguments at which the function and its derivatives are still representable
        pts += [(v, 'near-overflow') for v in NEAR_OVERFLOW.get(name, [])]
    elif dom == 'pos':
        pts += [(float(v), 'random') for v in rng.uniform(0.2, 5, size=k)]
        pts += [(1e-3, 'tiny'), (1.0, 'integer'), (3.0, 'integer'), (40.0, 'large')]
    elif dom == 'gtm1':
        pts += [(float(v), 'random') for v in rng.uniform(-0.8, 4, size=k)]
        pts += [(0.0, 'zero'), (1e-9, 'tiny'), (-1e-9, 'tiny'), (2.0, 'integer'), (-0.999, 'edge'), (40.0, 'large')]
    elif dom == 'unit':
        pts += [(float(v), 'random') for v in rng.uniform(-0.9, 0.9, size=k)]
        pts += [(0.0, 'zero'), (1e-9, 'tiny'), (-1e-9, 'tiny'), (0.99, 'edge'), (-0.99, 'edge')]
    elif dom == 'nz':
        pts += [(float(v), 'random') for v in rng.uniform(0.2, 4, size=k) * rng.choice([-1, 1], size=k)]
        pts += [(1e-3, 'tiny'), (-1e-3, 'tiny'), (1.0, 'integer'), (-3.0, 'integer'), (50.0, 'large')]
    elif dom == 'gt1':
        pts += [(float(v), 'random') for v in rng.uniform(1.1, 6, size=k)]
        pts += [(1.001, 'edge'), (2.0, 'integer'), (40.0, 'large')]
    elif dom == 'Rpoles':
        pts += [(float(v), 'random') for v in rng.uniform(0.2, 6, size=k)]
        pts += [(float(v), 'negative') for v in (-0.5, -1.5, -2.3, -0.25)]
        pts += [(1.0, 'integer'), (4.0, 'integer'), (1e-2, 'tiny'), (30.0, 'large')]
    return pts


def cases(tier, seed):
    nmax = 8 if tier == 'quick' else 12
    out = []
    exported = [n for n in ND.nthderiv.__all__ if n != 'np_filled_like']
    for name in exported:
        if name in TABLE:
            prms = [()]
            if name == 'polygamma':
                prms = [(m,) for m in POLYGAMMA_M]
            if name == 'hyperu':
                prms = HYPERU_PARAMS
            for prm in prms:
                s = case_seed('C16', seed, name, prm)
                rng = np.random.default_rng(s)
                nm = nmax if name != 'hyperu' else (4 if tier == 'quick' else 7)
                for (x, cls) in _points(name, TABLE[name][2], rng, tier):
                    out.append({'kind': 'smooth', 'seed': s, 'params': {'fn': name, 'prm': list(prm), 'x': x, 'cls': cls, 'nmax': nm}})
            if name in ('arctan', 'arcsinh', 'reciprocal', 'log', 'sqrt', 'log1p', 'log2', 'log10'):
                out.append({'kind': 'largearg', 'seed': case_seed('C16', seed, 'largearg', name), 'params': {'fn': name}})
            if name in ('arctanh', 'arctan', 'arcsinh', 'arcsin', 'sin', 'sinh', 'erf', 'erfi', 'expm1', 'log1p'):
                out.append({'kind': 'nearzero', 'seed': case_seed('C16', seed, 'nearzero', name), 'params': {'fn': name}})
            if name in HIGH_ORDER_FNS:
                out.append({'kind': 'highorder', 'seed': case_seed('C16', seed, 'highorder', name), 'params': {'fn': name, 'nmax': 30 if tier == 'quick' else 40}})
            if name == 'hyperu':
                # parameters spelled as integers (Python int, NumPy integer) and as floats, orders far beyond the generic sweep
                for ia, a in enumerate([1, 3, 'int64:2', 7, 3.0, 'int32:5', 2]):
                    out.append({'kind': 'hyperu_high', 'seed': case_seed('C16', seed, 'hyperu_high', ia), 'params': {'fn': name, 'a': a, 'nmax': 25 if tier == 'quick' else 40}})
            if name == 'polygamma':
                out.append({'kind': 'polygamma_array', 'seed': case_seed('C16', seed, 'polygamma_array'), 'params': {'fn': name, 'nmax': 5}})
        elif name in PIECEWISE:
            s = case_seed('C16', seed, name)
            out.append({'kind': 'piecewise', 'seed': s, 'params': {'fn': name, 'nmax': nmax}})
        else:
            out.append({'kind': 'unknown', 'seed': 0, 'params': {'fn': name}})
    return out


def required():
    return [n for n in ND.nthderiv.__all__ if n != 'np_filled_like']


_PERSIST = {}


def _call(f, prm, x, n, use_out):
    """use_out: 0 no out=, 1 fresh out buffer, 2 out aliases the input array"""
    xa = np.array([x, x])
    if use_out == 1:
        out = np.empty_like(xa)
        r = f(*(list(prm) + [xa]), out=out, n=n)
    elif use_out == 2:
        r = f(*(list(prm) + [xa]), out=xa, n=n)
    elif n % 2 == 1:
        # the caller keeps one argument array and writes each new point into it (x[:] = ...) before calling again
        buf = _PERSIST.setdefault(xa.dtype.str, np.empty_like(xa))
        buf[...] = xa * 0.9375           # the neighbouring point the buffer held in the previous call (result not used)
        try:
            f(*(list(prm) + [buf]), n=n)
        except Exception:
            pass
        buf[...] = xa
        r = f(*(list(prm) + [buf]), n=n)
    else:
        r = f(*(list(prm) + [xa]), n=n)
    val = np.array(r, copy=True)
    # the caller owns what it got: scaling it in place must not show up in any later call
    if isinstance(r, np.ndarray) and r.flags.writeable and r.dtype.kind in 'fc':
        r *= 0.25
        r += 3.0
    return val


def run_case(ctx, case):
    p = case['params']
    name = p['fn']
    f = getattr(ND, name)
    if case['kind'] == 'unknown':
        ctx.skip('no-reference:' + name)
        return
    if case['kind'] == 'largearg':
        # arguments of large magnitude, orders 1 ... 8: the derivatives are tiny there (arctan^(n)(x) ~ (n-1)!/x^n), and as accurate
        # RELATIVELY as anywhere else
        mk, dist, dom = TABLE[name]
        mf = mk()
        for x in ((1e7, -1e7, 1e12, -1e12, -3e15) if dom not in ('pos', 'gt1', 'gtm1') else (1e7, 1e12, 3e15)):
            for n in range(1, 9):
                try:
                    got = float(np.asarray(f(np.array([x]), n=n)).reshape(-1)[0])
                    with mp.workdps(400):          # numerical differentiation of values ~ x^-n needs the digits
                        ref = +mp.diff(mf, mp.mpf(x), n)
                except Exception as e:
                    ctx.skip('reference-unavailable:largearg'); continue
                if ref == 0 or abs(ref) < mp.mpf('1e-290'):
                    continue
                rel = abs(mp.mpf(got) - ref) / abs(ref) if np.isfinite(got) else mp.inf
                if not rel <= 1e-9:
                    ctx.violation('%s:large-argument:relative-accuracy' % name, {'fn': name, 'x': x, 'n': n, 'got': got, 'want': mp.nstr(ref, 17), 'relative_error': float(rel) if rel != mp.inf else 'inf'}); break
                ctx.ok(name, (name, 'largearg', n, x))
        return
    if case['kind'] == 'nearzero':
        # odd-like functions close to (not at) their zero: the even derivatives are small there (f''(x) ~ f'''(0) x) and a series cut
        # off after its leading term, or a difference of nearly equal powers, is right in absolute and wrong in relative terms
        mk, dist, dom = TABLE[name]
        mf = mk()
        for x in (3e-5, 6e-5, 9e-5, -7e-5, 2e-4, 1e-3):
            for n in range(0, 9):
                try:
                    got = float(np.asarray(f(np.array([x]), n=n)).reshape(-1)[0])
                    with mp.workdps(80):
                        ref = +mp.diff(mf, mp.mpf(x), n)
                except Exception as e:
                    ctx.skip('reference-unavailable:nearzero'); continue
                if ref == 0:
                    continue
                rel = abs(mp.mpf(got) - ref) / abs(ref) if np.isfinite(got) else mp.inf
                if not rel <= 2e-9:
                    ctx.violation('%s:near-zero:relative-accuracy' % name, {'fn': name, 'x': x, 'n': n, 'got': got, 'want': mp.nstr(ref, 17), 'relative_error': float(rel) if rel != mp.inf else 'inf'}); break
                ctx.ok(name, (name, 'nearzero', n, x))
        return
    if case['kind'] == 'highorder':
        # orders 12 ... 30 (40) in the interior of the domain, where these functions are well conditioned: RELATIVE accuracy (the
        # Cauchy-bound scale of the generic sweep is far above the true value here and would hide a gradual loss of digits)
        mk, dist, dom = TABLE[name]
        mf = mk()
        for x in ((0.01, 0.3, -0.45) if dom != 'pos' and dom != 'gt1' else (1.3, 2.6)):
            for n in [n_ for n_ in (12, 16, 20, 25, 30, 35, 40) if n_ <= p['nmax']]:
                try:
                    got = float(np.asarray(f(np.array([x]), n=n)).reshape(-1)[0])
                    ref = mp.diff(mf, mp.mpf(x), n)
                except Exception as e:
                    ctx.skip('reference-unavailable:highorder'); continue
                if ref == 0:
                    continue
                rel = abs(mp.mpf(got) - ref) / abs(ref) if np.isfinite(got) else mp.inf
                if not rel <= 1e-9:
                    ctx.violation('%s:high-order:relative-accuracy' % name, {'fn': name, 'x': x, 'n': n, 'got': got, 'want': mp.nstr(ref, 17), 'relative_error': float(rel) if rel != mp.inf else 'inf'}); break
                ctx.ok(name, (name, 'highorder', n, x))
        return
    if case['kind'] == 'hyperu_high':
        # d^n/dx^n U(a, b, x) = (-1)^n (a)_n U(a+n, b+n, x): reference from mpmath's own U and rising factorial
        rng = gen.rng_of(case)
        a = p['a']
        if isinstance(a, str):
            a = getattr(np, a.split(':')[0])(int(a.split(':')[1]))
        for b in (1.5, 0.75, 2, 3):
            for x in (0.7, float(np.round(rng.uniform(0.5, 3.0), 3)), 6.0):
                for n in [int(v) for v in rng.permutation(np.arange(9, p['nmax'] + 1))[:8]] + [p['nmax']]:
                    try:
                        got = np.asarray(f(a, b, np.array([x, x]), n=n))
                    except Exception as e:
                        ctx.violation('hyperu:high-order:raises', {'a': repr(a), 'b': b, 'x': x, 'n': n, 'error': repr(e)[:160]}); return
                    ush = mp.hyperu(mp.mpf(float(a)) + n, mp.mpf(float(b)) + n, mp.mpf(x))
                    ref = (-1) ** n * mp.rf(mp.mpf(float(a)), n) * ush
                    import scipy.special
                    dep = float(scipy.special.hyperu(float(a) + n, float(b) + n, x))
                    if not (np.isfinite(dep) and abs(mp.mpf(dep) - ush) <= 1e-6 * abs(ush)):
                        # SciPy's own U is NaN / inaccurate at these shifted parameters (integer b, a + n >= 19): the library's documented
                        # dependency, not its closed form, fails here
                        ctx.skip('dependency-inaccurate:scipy.special.hyperu'); continue
                    g = got.reshape(-1)[0] if got.size else np.nan
                    if got.shape != (2,) or not (np.isfinite(g) and abs(mp.mpf(float(g)) - ref) <= 1e-5 * abs(ref)):
                        ctx.violation('hyperu:high-order:value', {'a': repr(a), 'type_of_a': type(a).__name__, 'b': b, 'x': x, 'n': n, 'got': float(g), 'want': mp.nstr(ref, 17)}); return
                    ctx.ok('hyperu', ('hyperu', 'high', type(a).__name__, n))
        # array-valued parameters (the scipy idiom hyperu([a1, a2, a3], b, x): one parameter per point, or broadcast against the
        # points): element i is what the scalar spelling hyperu(a_i, b_i, x_i, n=n) gives (decided against mpmath above and in the sweep)
        for rep in range(6):
            aa = np.array([[1.0, 2.5, 0.5], [3.0, 1.5, 2.0], [0.25, 4.0, 1.0]][rep % 3]) + float(a) * 0.0
            bb = [1.5, np.array([1.5, 0.75, 2.5]), 2.25][rep % 3]
            xx = [np.array([0.7, 1.3, 2.9]), 1.7, np.array([[0.9], [2.2]])][(rep // 2) % 3]
            for n in (0, 1, 2, 3, 5):
                try:
                    got = np.asarray(f(aa, bb, xx, n=n))
                    want_shape = np.broadcast_shapes(aa.shape, np.shape(bb), np.shape(xx))
                    A_, B_, X_ = (np.broadcast_to(np.asarray(v, dtype=float), want_shape) for v in (aa, bb, xx))
                    ref = np.array([float(np.asarray(f(float(A_[i]), float(B_[i]), float(X_[i]), n=n))) for i in np.ndindex(*want_shape)]).reshape(want_shape)
                except Exception as e:
                    ctx.violation('hyperu:array-parameters:raises', {'n': n, 'a': aa.tolist(), 'error': repr(e)[:160]}); return
                if got.shape != tuple(want_shape) or not np.all(np.abs(got - ref) <= 1e-12 * np.abs(ref)):
                    ctx.violation('hyperu:array-parameters:value', {'n': n, 'a': aa.tolist(), 'b': np.asarray(bb).tolist(), 'x': np.asarray(xx).tolist(),
                                                                     'got': np.asarray(got).tolist(), 'want_from_scalar_calls': ref.tolist()}); return
                ctx.ok('hyperu', ('hyperu', 'array-parameters', rep, n))
        return
    if case['kind'] == 'polygamma_array':
        # the order m given as an array (one order per point, the scipy idiom polygamma([0, 1, 2], x)), mixing 0 and non-zero orders
        rng = gen.rng_of(case)
        for ms in ([0, 1, 2], [2, 0, 0], [0, 0, 3], [1, 1, 1]):
            xs = rng.uniform(0.4, 3.0, size=len(ms))
            for n in range(p['nmax'] + 1):
                try:
                    got = np.asarray(f(np.array(ms), xs.copy(), n=n))
                except Exception as e:
                    ctx.violation('polygamma:array-valued-order:raises', {'m': ms, 'n': n, 'error': repr(e)[:160]}); return
                ref = [mp.psi(m_ + n, mp.mpf(float(x_))) for m_, x_ in zip(ms, xs)]
                bad = got.shape != (len(ms),) or any(not (np.isfinite(g) and abs(mp.mpf(float(g)) - r) <= 1e-8 * (abs(r) + 1)) for g, r in zip(got.reshape(-1), ref))
                if bad:
                    ctx.violation('polygamma:array-valued-order:value', {'m': ms, 'n': n, 'x': xs.tolist(), 'got': got.tolist(), 'want': [float(r) for r in ref]}); return
                ctx.ok('polygamma', ('polygamma', 'array-m', tuple(ms), n))
        return
    if case['kind'] == 'piecewise':
        return _piecewise(ctx, name, f, p, gen.rng_of(case))
    mk, dist, dom = TABLE[name]
    prm = tuple(p['prm'])
    mf = mk(*prm)
    x = p['x']
    rho = 0.5 * min(dist(x, prm), 2.0)
    xm = mp.mpf(x)
    # max |f| on the circle |z-x| = rho (Cauchy bound for all orders)
    high = [16, 22, 30] if (p['cls'] == 'random' and name not in ('gammaln', 'psi', 'polygamma', 'hyperu')) else []
    try:
        M = max(abs(mf(xm + rho * mp.expjpi(mp.mpf(k) / 8))) for k in range(16))
        refs = {n: (mp.diff(mf, xm, n) if n else mf(xm)) for n in list(range(0, p['nmax'] + 1)) + high}
    except (ValueError, ZeroDivisionError, mp.libmp.NoConvergence) as e:
        ctx.skip('reference-unavailable:%s:%s' % (name, p['cls']))       # mpmath could not evaluate the reference here
        return
    # orders are requested in a shuffled sequence (jumps, descents): closed forms must not depend on what was asked before
    order = list(np.random.default_rng(case['seed'] + int(abs(x) * 1000) % 97).permutation(p['nmax'] + 1))
    for n in [int(v) for v in order] + high:
        try:
            got = _call(f, prm, x, n, use_out=(n + int(abs(x) * 10)) % 3)
        except Exception as e:
            ctx.violation('%s:raises:%s' % (name, p['cls']), {'fn': name, 'prm': prm, 'x': x, 'n': n, 'error': repr(e)[:200]})
            return
        ref = refs[n]
        S = max(abs(ref), mp.mpf('1e-4') * mp.factorial(n) * M / mp.mpf(rho) ** n)
        if got.shape != (2,):
            ctx.violation('%s:shape' % name, {'fn': name, 'n': n, 'shape': got.shape}); return
        g = got[0]
        err = abs(mp.mpf(float(np.real(g))) - mp.re(ref)) / S if np.isfinite(g) else mp.inf
        if np.iscomplexobj(got) and abs(got[0].imag) > 0:
            err = mp.inf
        if not err <= TAU_FN.get(name, TAU):
            ncls = 'n0' if n == 0 else ('n1' if n == 1 else 'n>=2')
            ctx.violation('%s:value:%s:%s%s' % (name, p['cls'], ncls, ':nan' if not np.isfinite(g) else ''),
                          {'fn': name, 'prm': prm, 'x': x, 'n': n, 'got': complex(g) if np.iscomplexobj(got) else float(g),
                           'want': mp.nstr(ref, 17), 'err_over_scale': float(err) if err != mp.inf else 'inf'})
            return
        ctx.ok(name, (name, prm, n, p['cls']), noise=float(err),
               sample={'fn': name, 'prm': prm, 'x': x, 'n': n, 'got': float(np.real(g)), 'ref': mp.nstr(ref, 17)} if (n == 3 and p['cls'] == 'random') else None)
    if p['cls'] == 'random':
        # the order given as a NumPy integer (an element of numpy.arange), the point as a list / tuple of floats
        for n in [int(v) for v in order][:4] + ([22, 30] if name not in ('gammaln', 'psi', 'polygamma', 'hyperu') else []):
            for tag, call in (('numpy-integer-order', lambda: f(*(list(prm) + [np.array([x, x])]), n=np.int64(n))), ('numpy-int32-order', lambda: f(*(list(prm) + [np.array([x, x])]), n=np.int32(n))),
                              ('list-point', lambda: f(*(list(prm) + [[x, x]]), n=n)), ('tuple-point', lambda: f(*(list(prm) + [(x, x)]), n=n))):
                try:
                    got = np.asarray(call())
                except Exception as e:
                    ctx.violation('%s:%s:raises' % (name, tag), {'fn': name, 'prm': prm, 'x': x, 'n': n, 'error': repr(e)[:200]}); return
                want = np.asarray(_call(f, prm, x, n, 0))
                if got.shape != want.shape or not np.array_equal(got, want, equal_nan=True):
                    ctx.violation('%s:%s:value' % (name, tag), {'fn': name, 'prm': prm, 'x': x, 'n': n, 'got': got.tolist(), 'with_python_int_and_array': want.tolist()}); return
                ctx.ok(name, (name, prm, n, tag))
    if p['cls'] == 'integer' and float(x) == int(x):
        # the same point given with an integer type (an array of ints, a Python int, a NumPy integer scalar): a derivative is not an
        # integer, the value is the same as at the float spelling (order 0 of `reciprocal` is NumPy's integer reciprocal by definition)
        for n in [int(v) for v in order]:
            if n == 0 and name == 'reciprocal':
                continue
            for tag, xi in (('int-array', np.array([int(x), int(x)])), ('python-int', int(x)), ('numpy-int32', np.int32(int(x)))):
                try:
                    got = np.asarray(f(*(list(prm) + [xi]), n=n))
                except Exception as e:
                    ctx.violation('%s:integer-typed-point:raises' % name, {'fn': name, 'prm': prm, 'x': int(x), 'spelling': tag, 'n': n, 'error': repr(e)[:200]})
                    return
                g = got.reshape(-1)[0] if got.size else np.nan
                ref = refs[n]
                S = max(abs(ref), mp.mpf('1e-4') * mp.factorial(n) * M / mp.mpf(rho) ** n)
                err = abs(mp.mpf(float(np.real(g))) - mp.re(ref)) / S if np.isfinite(g) else mp.inf
                if not err <= TAU_FN.get(name, TAU):
                    ctx.violation('%s:integer-typed-point:value' % name, {'fn': name, 'prm': prm, 'x': int(x), 'spelling': tag, 'n': n, 'got': float(np.real(g)),
                                                                          'want': mp.nstr(ref, 17)})
                    return
                ctx.ok(name, (name, prm, n, 'integer-typed', tag))


def _piecewise(ctx, name, f, p, rng):
    pts = [0.3, -0.3, 1.6, -1.6, 2.45, -2.45, 17.2, -0.8]
    for x in pts:
        if name == 'clip':
            for (lo, hi) in ((-1.0, 1.0), (0.5, 2.0), (-3.0, -2.0), (0.0, 1.0), (-2.0, 0.0), (0, 3), (np.float64(0.0), np.float64(2.0)), (-np.inf, 0.5), (0.25, np.inf)):
                for n in range(0, p['nmax'] + 1):
                    got = np.asarray(f(lo, hi, np.array([x]), n=n))[0]
                    ref = float(np.clip(x, lo, hi)) if n == 0 else (float(lo < x < hi) if n == 1 else 0.0)
                    if got != ref:
                        ctx.violation('clip:value', {'x': x, 'lo': lo, 'hi': hi, 'n': n, 'got': float(got), 'want': ref}); return
                    ctx.ok('clip', ('clip', lo, hi, n, x))
            # bounds given as arrays (one interval per point), as numpy.clip accepts them
            lo_a = np.array([-1.0, 0.0, 0.5]); hi_a = np.array([0.0, 2.0, 0.75]); xa = np.array([x, x, x])
            for n in range(0, p['nmax'] + 1):
                try:
                    got = np.asarray(f(lo_a, hi_a, xa.copy(), n=n))
                except Exception as e:
                    ctx.violation('clip:array-bounds:raises', {'x': x, 'n': n, 'error': repr(e)[:160]}); return
                ref = np.clip(xa, lo_a, hi_a) if n == 0 else (((lo_a < xa) & (xa < hi_a)).astype(float) if n == 1 else np.zeros(3))
                if got.shape != ref.shape or not np.array_equal(got, ref):
                    ctx.violation('clip:array-bounds:value', {'x': x, 'n': n, 'got': got.tolist(), 'want': ref.tolist()}); return
                ctx.ok('clip', ('clip', 'array-bounds', n, x))
            continue
        base = {'rint': np.rint, 'fix': np.fix, 'floor': np.floor, 'ceil': np.ceil, 'trunc': np.trunc,
                'sign': np.sign, 'absolute': np.absolute}[name]
        for n in range(0, p['nmax'] + 1):
            got = np.asarray(f(np.array([x]), n=n))[0]
            if n == 0:
                ref = float(base(x))
            elif name == 'absolute' and n == 1:
                ref = float(np.sign(x))
            else:
                ref = 0.0
            if got != ref:
                ctx.violation('%s:value' % name, {'x': x, 'n': n, 'got': float(got), 'want': ref}); return
            ctx.ok(name, (name, n, x))


def finish(ctx):
    from .. import core
    return core.finish(ctx, required(), RULE, assumptions=ASSUMPTIONS)
