"""C09 - forward-mode derivative drivers are exact.
Monitor: extract_*(f(init_*(x))) against exact rational partial derivatives of polynomial programs (O-Q) and
against mp.diff of mirrored smooth programs."""
import math
from fractions import Fraction
import numpy as np
import mpmath as mp
import algopy
from algopy import UTPM
import algopy.exact_interpolation as EI
from ..core import case_seed
from .. import gen, polyprog as PP

PID = 'C09'
TAU = 1e-11
RULE = ('polynomial programs R^N -> R^M with integer coefficients (degree <= d+2) at integer and real points, N in 1..8, '
        'tensor order d in 1..5 with C(N+d-1,d) <= bound, drivers {jacobian, jac_vec, hessian, hess_vec, tensor (vector of '
        'distinct partials and full matrix for d=2)}; result compared with exact rational partial derivatives (tolerance '
        '1e-11 x sum of absolute term values); smooth programs mirrored in mpmath and compared with mp.diff; '
        'a class = (driver, N, M or d, point kind, program style); non-trivial = N>=2 or d>=2')
ASSUMPTIONS = ['exact Fraction arithmetic; mp.diff at 60 digits', 'the ordering of extract_tensor rows is taken from generate_multi_indices (validated as a set by C15)']
REQUIRED = ['jacobian', 'jacobian:matrix-seed', 'jac_vec', 'hessian', 'hess_vec', 'tensor', 'tensor_full', 'smooth:jacobian', 'smooth:hessian', 'smooth:tensor', 'tensor_typed']


def cases(tier, seed):
    out = []
    Ns = [1, 2, 3, 5] if tier == 'quick' else [1, 2, 3, 4, 5, 6, 8]
    reps = 2 if tier == 'quick' else 8
    bound = 40 if tier == 'quick' else 130

    def add(kind, **prm):
        out.append({'kind': kind, 'seed': case_seed('C09', seed, kind, sorted(prm.items())), 'params': prm})
    for rep in range(reps):
        for N in Ns + ([4, 6] if 4 not in Ns else [6]):
            for pt in ('int', 'real'):
                add('jac', N=N, M=[1, 3][rep % 2], point=pt, rep=rep)
                add('hess', N=N, point=pt, rep=rep)
                for d in range(1, 6):
                    if math.comb(N + d - 1, d) <= bound:
                        add('tensor', N=N, d=d, point=pt, rep=rep)
            add('smooth', N=min(N, 4), rep=rep)
            if N <= 3:
                for d in (1, 2, 3):
                    add('tensor_typed', N=N, d=d, point=['complex', 'longdouble', 'float32'][(rep + d) % 3], rep=rep)
        for shp in ((2, 3), (3, 2), (1, 4), (2, 2)):
            for lay in ('C', 'F', 'T', 'slice'):
                add('jacmat', shape=list(shp), layout=lay, point=['int', 'real'][rep % 2], rep=rep)
        for (N, d) in ([(1, 11), (2, 11), (1, 16), (2, 13)] if tier == 'quick' else [(N, d) for N in (1, 2) for d in (11, 12, 13, 14, 16, 18)]):
            add('tensor', N=N, d=d, point='real', rep=rep)
    return out


def _point(rng, N, kind):
    if kind == 'int':
        return rng.integers(-3, 4, size=N).astype(float)
    return np.round(rng.normal(size=N) * 1.5, 3)


def _typed(rng, x, kind):
    """an integer point as a caller may supply it: float array, int64 / int32 / int16 array, list of Python ints"""
    if kind != 'int':
        return x.copy()
    k = int(rng.integers(5))
    if k == 0:
        return x.copy()
    if k == 4:
        return [int(t) for t in x]
    return x.astype([np.int64, np.int32, np.int16][k - 1])


def _close(got, ref, scale, tau=TAU):
    """got float; ref, scale Fractions"""
    if not np.isfinite(got):
        return False, float('inf')
    e = abs(Fraction(float(got)) - ref)
    s = scale if scale > 0 else Fraction(1)
    return e <= Fraction(tau).limit_denominator(10 ** 15) * s, float(e / s)


def run_case(ctx, case):
    rng = gen.rng_of(case)
    return globals()['_' + case['kind']](ctx, case['params'], rng)



def _tensor_typed(ctx, p, rng):
    """init_tensor / extract_tensor at a point that is not a float64 array: complex (the polynomial program is analytic, the
    table holds its complex partial derivatives), longdouble, float32.  The type of the point must survive the seeding (the
    other init_* drivers keep it) and the table must be the one at that point, not at its real part / its rounded value."""
    N, d = p['N'], p['d']
    poly = PP.random_poly(rng, N, d + 2, 5)
    xr = np.round(rng.normal(size=N) * 1.5, 3); xi = np.round(rng.normal(size=N) * 1.5, 3)
    J = [tuple(int(v) for v in row) for row in np.asarray(EI.generate_multi_indices(N, d))]
    style = int(rng.integers(6))
    if p['point'] == 'complex':
        xt = xr + 1j * xi
        xq = [complex(float(a), float(b)) for a, b in zip(xr, xi)]
        tau = 1e-9
    elif p['point'] == 'longdouble':
        xt = xr.astype(np.longdouble) + np.longdouble(1) / np.longdouble(3)         # not representable in double precision
        xq = [Fraction(float(a)) + Fraction(1, 3) for a in xr]
        tau = 1e-9
    else:
        xt = xr.astype(np.float32)
        xq = [Fraction(float(a)) for a in xt]
        tau = 1e-3
    try:
        X = UTPM.init_tensor(d, xt)
        Y = PP.evaluate(algopy, [poly], X, style)
        T = np.asarray(UTPM.extract_tensor(N, Y, as_full_matrix=False))
    except Exception as e:
        ctx.violation('tensor_typed:raises:' + type(e).__name__, {'N': N, 'd': d, 'point': p['point'], 'error': repr(e)[:200]}); return
    want_kind = {'complex': 'c', 'longdouble': 'f', 'float32': 'f'}[p['point']]
    if X.data.dtype.kind != want_kind or (p['point'] == 'longdouble' and X.data.dtype.itemsize < np.dtype(np.longdouble).itemsize):
        ctx.violation('tensor_typed:seed-dtype:' + p['point'], {'N': N, 'd': d, 'got': str(X.data.dtype), 'point_dtype': str(np.asarray(xt).dtype)}); return
    if not np.all(X.data[0] == np.asarray(xt)[None, :]):
        ctx.violation('tensor_typed:seed-value:' + p['point'], {'N': N, 'd': d}); return
    absq = [Fraction(abs(complex(v))) if isinstance(v, complex) else abs(v) for v in xq]
    total = float(sum(poly.partial(a).absval(absq) / math.prod(math.factorial(k) for k in a) for a in J)) + float(poly.absval(absq))
    worst = 0.0
    for a, got in zip(J, T):
        ref = poly.partial(a)(xq) / math.prod(math.factorial(k) for k in a)
        e = abs(complex(got) - complex(ref)) / (total * 30.0 ** d + 1e-300)
        worst = max(worst, e)
        if not (e <= tau):
            ctx.violation('tensor_typed:value:' + p['point'], {'N': N, 'd': d, 'alpha': a, 'got': str(complex(got)), 'want': str(complex(ref)), 'x': [str(v) for v in np.asarray(xt)]}); return
    if p['point'] == 'longdouble' and np.finfo(np.longdouble).eps < 1e-17 and N >= 1:
        # the shift by 1/3 is below double resolution only in its last bits: the zeroth coefficient must carry them
        if np.all(X.data[0].astype(np.float64).astype(np.longdouble) == X.data[0]):
            ctx.violation('tensor_typed:seed-rounded-to-double', {'N': N, 'd': d}); return
    ctx.ok('tensor_typed', ('tensor_typed', N, d, p['point'], style), noise=worst)

def _jac(ctx, p, rng):
    N, M = p['N'], p['M']
    polys = [PP.random_poly(rng, N, 4, 4) for _ in range(M)]
    x = _point(rng, N, p['point']); xq = [Fraction(float(v)) for v in x]
    v = np.round(rng.normal(size=N) * 1.5, 3); vq = [Fraction(float(t)) for t in v]          # directions are never integer-valued
    style = int(rng.integers(24))
    # --- init_jacobian / extract_jacobian
    try:
        X = UTPM.init_jacobian(_typed(rng, x, p['point']))
        Y = PP.evaluate(algopy, polys, X, style)
        J = UTPM.extract_jacobian(Y)
    except Exception as e:
        ctx.violation('jacobian:raises:' + type(e).__name__, {'N': N, 'M': M, 'error': repr(e)[:200]}); return
    J = np.asarray(J)
    want_shape = (N,) if M == 1 else (M, N)
    if J.shape != want_shape:
        ctx.violation('jacobian:shape', {'got': J.shape, 'want': want_shape}); return
    J2 = J.reshape(M, N)
    worst = 0.0
    for m in range(M):
        for i in range(N):
            dp = polys[m].diff(i)
            ok, e = _close(J2[m, i], dp(xq), dp.absval(xq))
            worst = max(worst, e)
            if not ok:
                ctx.violation('jacobian:value', {'N': N, 'M': M, 'm': m, 'i': i, 'got': float(J2[m, i]), 'want': float(dp(xq)), 'x': x.tolist()}); return
    ctx.ok('jacobian', ('jac', N, M, p['point'], style), noise=worst)
    # the same seed inside a longer polynomial (a user who also wants y.data[2] from the same sweep): the first-order
    # coefficient is still what the extractors return
    Dl = 3 + int(rng.integers(3))
    try:
        d = np.zeros((Dl, N, N)); d[:2] = X.data
        Jl = np.asarray(UTPM.extract_jacobian(PP.evaluate(algopy, polys, UTPM(d), style)))
        d = np.zeros((Dl, 1, N)); d[0, 0] = x; d[1, 0] = v
        Jvl = np.asarray(UTPM.extract_jac_vec(PP.evaluate(algopy, polys, UTPM(d), -1 - style)))
    except Exception as e:
        ctx.violation('jacobian:longer-polynomial:raises:' + type(e).__name__, {'N': N, 'M': M, 'D': Dl, 'error': repr(e)[:200]}); return
    if Jl.shape != J.shape or Jvl.shape != (M,):
        ctx.violation('jacobian:longer-polynomial:shape', {'got': [Jl.shape, Jvl.shape], 'want': [J.shape, (M,)], 'D': Dl}); return
    for m in range(M):
        ref = sum(polys[m].diff(i)(xq) * vq[i] for i in range(N))
        sc = sum(polys[m].diff(i).absval(xq) * abs(vq[i]) for i in range(N))
        ok, e = _close(Jvl[m], ref, sc)
        if not ok:
            ctx.violation('jac_vec:longer-polynomial:value', {'N': N, 'M': M, 'D': Dl, 'm': m, 'got': float(Jvl[m]), 'want': float(ref)}); return
        for i in range(N):
            dp = polys[m].diff(i)
            ok, e = _close(Jl.reshape(M, N)[m, i], dp(xq), dp.absval(xq))
            if not ok:
                ctx.violation('jacobian:longer-polynomial:value', {'N': N, 'M': M, 'D': Dl, 'm': m, 'i': i, 'got': float(Jl.reshape(M, N)[m, i]),
                                                                   'want': float(dp(xq)), 'x': x.tolist()}); return
    ctx.ok('jacobian', ('jac-longer', N, M, Dl, style))
    # --- init_jac_vec / extract_jac_vec
    try:
        X = UTPM.init_jac_vec(_typed(rng, x, p['point']), v.copy())
        Y = PP.evaluate(algopy, polys, X, -1 - style)          # always a vector
        Jv = np.asarray(UTPM.extract_jac_vec(Y))
    except Exception as e:
        ctx.violation('jac_vec:raises:' + type(e).__name__, {'N': N, 'M': M, 'error': repr(e)[:200]}); return
    if Jv.shape != (M,):
        ctx.violation('jac_vec:shape', {'got': Jv.shape, 'want': (M,)}); return
    for m in range(M):
        ref = sum(polys[m].diff(i)(xq) * vq[i] for i in range(N))
        sc = sum(polys[m].diff(i).absval(xq) * abs(vq[i]) for i in range(N))
        ok, e = _close(Jv[m], ref, sc)
        if not ok:
            ctx.violation('jac_vec:value', {'N': N, 'M': M, 'm': m, 'got': float(Jv[m]), 'want': float(ref)}); return
    ctx.ok('jac_vec', ('jv', N, M, p['point'], style))
    # a scalar point (a function of one variable seeded as in init_jac_vec(2.5, 1.0)), also as a zero-dimensional array
    x0s = float(x[0]); v0s = float(v[0])
    for form, (a_, b_) in (('python floats', (x0s, v0s)), ('0-d arrays', (np.array(x0s), np.array(v0s))), ('int point', (int(round(x0s)), v0s))):
        try:
            Xq = UTPM.init_jac_vec(a_, b_)
            r = np.asarray(UTPM.extract_jac_vec(Xq * Xq * Xq + 2 * Xq))
        except Exception as e:
            ctx.violation('jac_vec:scalar-point:raises', {'form': form, 'error': repr(e)[:200]}); return
        want = (3 * float(a_) ** 2 + 2) * v0s
        if r.shape != () or not abs(float(r) - want) <= 1e-13 * (abs(want) + abs(3 * float(a_) ** 2 * v0s) + 1e-300):
            ctx.violation('jac_vec:scalar-point:value', {'form': form, 'x': float(a_), 'v': v0s, 'got': r.tolist(), 'want': want}); return
    ctx.ok('jac_vec', ('jv-scalar-point', p['point']))
    # the value of the program may have any shape: a scalar (one polynomial, evaluated to a scalar), a matrix (outer product of
    # the value vector with itself) - the Jacobian-vector product has the shape of the value
    try:
        Xs = UTPM.init_jac_vec(_typed(rng, x, p['point']), v.copy())
        ys = PP.evaluate(algopy, polys[:1], Xs, style)            # scalar-valued
        js = np.asarray(UTPM.extract_jac_vec(ys))
        Yv = PP.evaluate(algopy, polys, Xs, -1 - style)
        jm = np.asarray(UTPM.extract_jac_vec(algopy.outer(Yv, Yv)))
    except Exception as e:
        ctx.violation('jac_vec:scalar-or-matrix-valued:raises:' + type(e).__name__, {'N': N, 'M': M, 'error': repr(e)[:200]}); return
    ref0 = sum(polys[0].diff(i)(xq) * vq[i] for i in range(N)); sc0 = sum(polys[0].diff(i).absval(xq) * abs(vq[i]) for i in range(N))
    ok, e = _close(js.reshape(-1)[0], ref0, sc0) if js.size == 1 else (False, None)
    if js.shape not in ((), (1,)) or not ok:
        ctx.violation('jac_vec:scalar-valued', {'N': N, 'got_shape': js.shape, 'got': js.tolist(), 'want': float(ref0)}); return
    vals = [polys[m](xq) for m in range(M)]; dvals = [sum(polys[m].diff(i)(xq) * vq[i] for i in range(N)) for m in range(M)]
    avals = [polys[m].absval(xq) for m in range(M)]; advals = [sum(polys[m].diff(i).absval(xq) * abs(vq[i]) for i in range(N)) for m in range(M)]
    if jm.shape != (M, M):
        ctx.violation('jac_vec:matrix-valued:shape', {'N': N, 'M': M, 'got_shape': jm.shape, 'want': (M, M)}); return
    for a in range(M):
        for b in range(M):
            ok, e = _close(jm[a, b], dvals[a] * vals[b] + vals[a] * dvals[b], advals[a] * avals[b] + avals[a] * advals[b])
            if not ok:
                ctx.violation('jac_vec:matrix-valued:value', {'N': N, 'M': M, 'entry': [a, b], 'got': float(jm[a, b])}); return
    ctx.ok('jac_vec', ('jv-shapes', N, M, style))


def _jacmat(ctx, p, rng):
    """init_jacobian with a matrix-shaped seed point in any memory layout: direction k perturbs the element with C-order
    (logical) index k, whatever the storage order; extract_jacobian returns the gradient in that order"""
    r_, c_ = p['shape']
    a = rng.integers(-3, 4, size=(r_, c_)).astype(float); b = rng.integers(-3, 4, size=(r_, c_)).astype(float)
    X0 = _point(rng, r_ * c_, p['point']).reshape(r_, c_)
    lay = p['layout']
    Xin = {'C': X0.copy(), 'F': np.asfortranarray(X0), 'T': np.ascontiguousarray(X0.T).T, 'slice': np.zeros((r_, 2 * c_))[:, ::2]}[lay]
    if lay == 'slice':
        Xin[...] = X0
    cross = [((0, 0), (r_ - 1, c_ - 1), 3.0), ((0, c_ - 1), (r_ - 1, 0), -2.0)]

    def f(X):
        y = algopy.sum(a * X * X + b * X)
        for (i, j, w) in cross:
            y = y + w * X[i] * X[j]
        return y
    G = 2 * a * X0 + b
    for (i, j, w) in cross:
        G[i] += w * X0[j]; G[j] += w * X0[i]
    try:
        J = np.asarray(UTPM.extract_jacobian(f(UTPM.init_jacobian(Xin))))
    except Exception as e:
        ctx.violation('jacobian:matrix-seed:raises', {'shape': [r_, c_], 'layout': lay, 'error': repr(e)[:200]}); return
    if J.size != r_ * c_ or not np.array_equal(X0, np.asarray(Xin)):
        ctx.violation('jacobian:matrix-seed:shape-or-seed-modified', {'shape': [r_, c_], 'layout': lay, 'got': list(J.shape)}); return
    if not np.max(np.abs(J.reshape(-1) - G.reshape(-1))) <= 1e-11 * (1 + np.max(np.abs(G))):
        ctx.violation('jacobian:matrix-seed:value', {'shape': [r_, c_], 'layout': lay, 'got': J.reshape(-1).tolist(), 'want': G.reshape(-1).tolist()}); return
    ctx.ok('jacobian:matrix-seed', ('jacmat', r_, c_, lay, p['point']))


def _hess(ctx, p, rng):
    N = p['N']
    poly = PP.random_poly(rng, N, 5, 5)
    x = _point(rng, N, p['point']); xq = [Fraction(float(v)) for v in x]
    v = np.round(rng.normal(size=N) * 1.5, 3); vq = [Fraction(float(t)) for t in v]
    style = int(rng.integers(24))
    try:
        xh = _typed(rng, x, p['point'])
        if isinstance(xh, list):
            xh = np.array(xh)
        if N >= 4 and N % 2 == 0 and style % 2:
            xh = np.asfortranarray(xh.reshape(2, N // 2))          # a non-C-ordered 2-D array: init_hessian ravels it in logical order
        elif N >= 4 and N % 2 == 0:
            xh = np.ascontiguousarray(xh.reshape(N // 2, 2).T).T     # transposed view
        X = UTPM.init_hessian(xh)
        Y = PP.evaluate(algopy, [poly], X, style)
        H = np.asarray(UTPM.extract_hessian(N, Y))
    except Exception as e:
        ctx.violation('hessian:raises:' + type(e).__name__, {'N': N, 'error': repr(e)[:200]}); return
    if H.shape != (N, N):
        ctx.violation('hessian:shape', {'got': H.shape}); return
    Hq = [[poly.diff(i).diff(j) for j in range(N)] for i in range(N)]
    # extract_hessian combines three second-order coefficients: scale by their sizes
    worst = 0.0
    for i in range(N):
        for j in range(N):
            sc = Hq[i][j].absval(xq) + Hq[i][i].absval(xq) + Hq[j][j].absval(xq)
            ok, e = _close(H[i, j], Hq[i][j](xq), sc)
            worst = max(worst, e)
            if not ok:
                ctx.violation('hessian:value:%s' % ('diag' if i == j else 'offdiag'), {'N': N, 'i': i, 'j': j, 'got': float(H[i, j]), 'want': float(Hq[i][j](xq)), 'x': x.tolist()}); return
    ctx.ok('hessian', ('hess', N, p['point'], style), noise=worst)
    # results handed out earlier stay what they were (a list of Hessians collected over several points)
    snapH = H.copy()
    try:
        x2 = _point(rng, N, p['point'])
        H2 = np.asarray(UTPM.extract_hessian(N, PP.evaluate(algopy, [poly], UTPM.init_hessian(x2.copy()), style)))
        J2 = np.asarray(UTPM.extract_jacobian(PP.evaluate(algopy, [poly], UTPM.init_jacobian(x2.copy()), style)))
    except Exception as e:
        ctx.violation('hessian:second-call-raises', {'N': N, 'error': repr(e)[:200]}); return
    if not np.array_equal(H, snapH) or (N > 1 and H2 is H):
        ctx.violation('hessian:earlier-result-changed-by-later-extraction', {'N': N, 'same_object': bool(H2 is H)}); return
    ctx.ok('results-stable', ('stable', 'hessian', N))
    try:
        X = UTPM.init_hess_vec(_typed(rng, x, p['point']), v.copy())
        Y = PP.evaluate(algopy, [poly], X, style)
        Hv = np.asarray(UTPM.extract_hess_vec(N, Y))
    except Exception as e:
        ctx.violation('hess_vec:raises:' + type(e).__name__, {'N': N, 'error': repr(e)[:200]}); return
    if Hv.shape != (N,):
        ctx.violation('hess_vec:shape', {'got': Hv.shape}); return
    for i in range(N):
        ref = sum(Hq[i][j](xq) * vq[j] for j in range(N))
        sc = sum(Hq[a][b].absval(xq) * (abs(vq[a]) + 1) * (abs(vq[b]) + 1) for a in range(N) for b in range(N))
        ok, e = _close(Hv[i], ref, sc)
        if not ok:
            ctx.violation('hess_vec:value', {'N': N, 'i': i, 'got': float(Hv[i]), 'want': float(ref)}); return
    ctx.ok('hess_vec', ('hv', N, p['point'], style))
    # directions of another magnitude than the unit vectors: H v is linear in v, so H (c v) / c must be as accurate as H v - measured
    # against sum_j |H_ij| |v_j| (the scale of the product itself, not that of the interpolation formula behind it)
    for c in (1e-6, 1e6):
        try:
            Xc = UTPM.init_hess_vec(np.asarray(x, dtype=float), v * c)
            Hc = np.asarray(UTPM.extract_hess_vec(N, PP.evaluate(algopy, [poly], Xc, style)))
        except Exception as e:
            ctx.violation('hess_vec:scaled-direction:raises', {'N': N, 'scale': c, 'error': repr(e)[:200]}); return
        for i in range(N):
            ref = sum(Hq[i][j](xq) * Fraction(float(v[j] * c)) for j in range(N))
            sc = sum(Hq[i][j].absval(xq) * abs(Fraction(float(v[j] * c))) for j in range(N)) + sum(Hq[a][b].absval(xq) for a in range(N) for b in range(N)) * Fraction(float(np.max(np.abs(v)) * c)) / 1000
            ok, e = _close(Hc[i], ref, sc, 1e-9)
            if not ok:
                ctx.violation('hess_vec:direction-far-from-unit-size:accuracy', {'N': N, 'i': i, 'scale_of_v': c, 'got': float(Hc[i]), 'want': float(ref), 'error_over_scale': e}); return
    ctx.ok('hess_vec', ('hv-scaled', N, p['point']))


def _tensor(ctx, p, rng):
    N, d = p['N'], p['d']
    poly = PP.random_poly(rng, N, d + 2, 6)
    # make sure monomials with repeated exponents >= 2 are present (they expose mis-scaled rows)
    if N >= 2 and d >= 2:
        e = [0] * N; e[0] = (d + 1) // 2; e[1] = d // 2
        poly.t[tuple(e)] = poly.t.get(tuple(e), 0) + Fraction(3)
    x = _point(rng, N, p['point']); xq = [Fraction(float(v)) for v in x]
    style = int(rng.integers(24))
    J = [tuple(int(v) for v in row) for row in np.asarray(EI.generate_multi_indices(N, d))]
    try:
        xt = x.copy()
        if p['point'] == 'int':
            xt = [x.astype(np.int32), x.astype(np.int16), x.astype(int), x.copy()][style % 4]      # integer seeds of any width
        X = UTPM.init_tensor(d, xt)
        Y = PP.evaluate(algopy, [poly], X, style)
        # the flag in the spellings a caller produces: literals, the result of a NumPy comparison (numpy.bool_), 0 / 1
        no = [False, np.False_, 0, np.int64(0), (np.arange(3) == 7)[0]][int(rng.integers(5))]
        yes = [True, np.True_, 1, (np.arange(3) == 2)[2]][int(rng.integers(4))]
        T1 = np.asarray(UTPM.extract_tensor(N, Y, as_full_matrix=no))
        # the full symmetric tensor (the default form; the Hessian for d = 2), for every order as long as it stays small
        full_ok = N ** d <= 400 and d <= 5          # (the library enumerates all d! orderings of an index tuple)
        Hf = np.asarray(UTPM.extract_tensor(N, Y, as_full_matrix=yes) if rng.random() < 0.5 else UTPM.extract_tensor(N, Y)) if full_ok else None
        T2 = np.asarray(UTPM.extract_tensor(N, Y, as_full_matrix=False))      # again: must not depend on earlier extractions
        # a matrix-valued program (the outer product of (p, 2p) with itself): one table of partial derivatives per entry
        Yv = PP.evaluate(algopy, [poly, poly], X, -1 - style)
        Tm = np.asarray(UTPM.extract_tensor(N, algopy.outer(Yv, Yv * np.array([1.0, 2.0])), as_full_matrix=False))
        Hm = np.asarray(UTPM.extract_tensor(N, algopy.outer(Yv, Yv * np.array([1.0, 2.0])))) if full_ok else None
    except Exception as e:
        ctx.violation('tensor:raises:' + type(e).__name__, {'N': N, 'd': d, 'error': repr(e)[:200]}); return
    if T1.shape != (len(J),):
        ctx.violation('tensor:shape', {'got': T1.shape, 'want': (len(J),)}); return
    # result_i = sum_j Gamma[i,j] * c_j with c_j the exact d-th Taylor coefficient along ray j: scale_i = sum_j |Gamma[i,j]| |c_j|
    total = sum(poly.partial(a).absval(xq) / math.prod(math.factorial(k) for k in a) for a in J)
    Gm, rays = EI.generate_Gamma_and_rays(N, d)
    if not np.all(np.isfinite(np.asarray(Gm, dtype=float))):
        ctx.violation('tensor:interpolation-matrix-nonfinite', {'N': N, 'd': d}); return
    part = {a: poly.partial(a)(xq) / math.prod(math.factorial(k) for k in a) for a in J}
    cj = [sum(part[a] * math.prod(Fraction(int(r[n])) ** a[n] for n in range(N)) for a in J) for r in np.asarray(rays)]
    scales = [sum(abs(Fraction(float(Gm[i, j]))) * abs(cj[j]) for j in range(len(J))) + total * Fraction(1, 10 ** 6) for i in range(len(J))]
    tau_d = 1e-10 if d <= 10 else 3e-10 * 10.0 ** ((d - 10 + 1) // 2)
    worst = 0.0
    for T, tag in ((T1, 'first'), (T2, 'repeat')):
        for i_, (a, got) in enumerate(zip(J, T)):
            ref = part[a]
            ok, e = _close(got, ref, scales[i_], tau_d)
            worst = max(worst, e)
            if not ok:
                ctx.violation('tensor:value:%s:%s' % ('d<=3' if d <= 3 else 'd>=4', tag), {'N': N, 'd': d, 'alpha': a, 'got': float(got), 'want': float(ref), 'x': x.tolist()}); return
    ctx.ok('tensor', ('tensor', N, d, p['point'], style), noise=worst,
           sample={'driver': 'tensor', 'N': N, 'd': d, 'x': x.tolist(), 'poly_terms': len(poly.t), 'max_err_over_scale': worst} if rng.random() < .1 else None)
    # the matrix-valued program: entry (a, b) is k_ab * p(x)^2 with k = [[1, 2], [1, 2]]; its table is k_ab times the table of the
    # scalar-valued program p * p (whose extraction is the scalar path checked above)
    try:
        Tpp = np.asarray(UTPM.extract_tensor(N, PP.evaluate(algopy, [poly], X, style) * PP.evaluate(algopy, [poly], X, style), as_full_matrix=False))
    except Exception as e:
        ctx.violation('tensor:raises:' + type(e).__name__, {'N': N, 'd': d, 'error': repr(e)[:200]}); return
    kk = np.array([[1.0, 2.0], [1.0, 2.0]])
    if Tm.shape != (len(J), 2, 2) or Tpp.shape != (len(J),):
        ctx.violation('tensor:matrix-valued:shape', {'N': N, 'd': d, 'got': Tm.shape, 'want': (len(J), 2, 2)}); return
    scm = np.max(np.abs(Tpp)) + float(total) ** 2 + 1e-300
    if not np.all(np.abs(Tm - Tpp[:, None, None] * kk[None]) <= 1e-9 * scm * 8):
        ctx.violation('tensor:matrix-valued:value', {'N': N, 'd': d, 'max_abs_difference': float(np.max(np.abs(Tm - Tpp[:, None, None] * kk[None])))}); return
    ctx.ok('tensor', ('tensor-matrix-valued', N, d))
    if Hf is not None:
        # entry (i_1, ..., i_d) of the full tensor is the partial derivative d^d f / dx_{i_1} ... dx_{i_d} = alpha! * packed[alpha]
        import itertools
        pos = {a: k for k, a in enumerate(J)}
        if Hf.shape != (N,) * d or Hm.shape != (N,) * d + (2, 2):
            ctx.violation('tensor_full:shape', {'N': N, 'd': d, 'got': [list(Hf.shape), list(Hm.shape)], 'want': [[N] * d, [N] * d + [2, 2]]}); return
        for idx in itertools.product(range(N), repeat=d):
            a = tuple(idx.count(n) for n in range(N))
            fac = math.prod(math.factorial(k) for k in a)
            if not (abs(Hf[idx] - fac * T1[pos[a]]) <= 1e-12 * (abs(fac * T1[pos[a]]) + 1e-300) and
                    np.all(np.abs(Hm[idx] - fac * Tm[pos[a]]) <= 1e-12 * (np.abs(fac * Tm[pos[a]]) + 1e-300))):
                ctx.violation('tensor_full:entry-vs-packed', {'N': N, 'd': d, 'index': list(idx), 'alpha': a, 'got': float(Hf[idx]), 'want': float(fac * T1[pos[a]])}); return
        ctx.ok('tensor_full', ('tensor_full', N, d, p['point']))
    if Hf is not None and d == 2:
        for i in range(N):
            for j in range(N):
                ref = poly.diff(i).diff(j)(xq)
                ok, e = _close(Hf[i, j], ref, total * 8, 1e-10)
                if not ok:
                    ctx.violation('tensor_full:value', {'N': N, 'i': i, 'j': j, 'got': float(Hf[i, j]), 'want': float(ref)}); return
        ctx.ok('tensor_full', ('tensor_full', N, p['point']))


# --- smooth programs mirrored in mpmath ---------------------------------------------------------------

def _smooth_pair(rng, N):
    a = np.round(rng.normal(size=N), 2); b = np.round(rng.normal(size=N) * 0.5, 2); c = np.round(rng.normal(size=N), 2)
    k = int(rng.integers(3))

    def f_alg(x):
        s = sum(float(a[i]) * x[i] for i in range(N)); t = sum(float(b[i]) * x[i] for i in range(N)); u = sum(float(c[i]) * x[i] for i in range(N))
        direct = algopy.sin(x[0]) * x[N - 1] / 3 + algopy.exp(x[0] / 2)        # the seed enters nonlinear functions directly
        if k == 0:
            return algopy.sin(s) * algopy.exp(t) + algopy.log(1.5 + u * u) + direct
        if k == 1:
            return algopy.cos(s * t) / (2.0 + u * u) + algopy.tanh(t) + direct
        return algopy.sqrt(2.0 + s * s) * algopy.arctan(t) + algopy.special.erf(u) + direct

    def f_mp(*x):
        s = sum(mp.mpf(float(a[i])) * x[i] for i in range(N)); t = sum(mp.mpf(float(b[i])) * x[i] for i in range(N)); u = sum(mp.mpf(float(c[i])) * x[i] for i in range(N))
        direct = mp.sin(x[0]) * x[N - 1] / 3 + mp.exp(x[0] / 2)
        if k == 0:
            return mp.sin(s) * mp.exp(t) + mp.log(mp.mpf('1.5') + u * u) + direct
        if k == 1:
            return mp.cos(s * t) / (2 + u * u) + mp.tanh(t) + direct
        return mp.sqrt(2 + s * s) * mp.atan(t) + mp.erf(u) + direct
    return f_alg, f_mp, k


def _smooth(ctx, p, rng):
    N = p['N']
    f_alg, f_mp, k = _smooth_pair(rng, N)
    pk = 'int' if rng.random() < .5 else 'real'
    x = rng.integers(-2, 3, size=N).astype(float) if pk == 'int' else np.round(rng.normal(size=N), 3)
    xm = [mp.mpf(float(v)) for v in x]

    def part(alpha):
        if sum(alpha) == 0:
            return f_mp(*xm)
        return mp.diff(f_mp, tuple(xm), tuple(alpha)) if N > 1 else mp.diff(f_mp, xm[0], alpha[0])
    try:
        J = np.asarray(UTPM.extract_jacobian(f_alg(UTPM.init_jacobian(_typed(rng, x, pk)))))
        H = np.asarray(UTPM.extract_hessian(N, f_alg(UTPM.init_hessian(_typed(rng, x, pk)))))
        d = 3
        T = np.asarray(UTPM.extract_tensor(N, f_alg(UTPM.init_tensor(d, _typed(rng, x, pk))), as_full_matrix=False))
    except Exception as e:
        ctx.violation('smooth:raises:' + type(e).__name__, {'N': N, 'template': k, 'error': repr(e)[:200]}); return
    gscale = max(1.0, max(abs(float(part([int(i == j) for j in range(N)]))) for i in range(N)))
    for i in range(N):
        ref = float(part([int(i == j) for j in range(N)]))
        if not abs(J.reshape(-1)[i] - ref) <= 1e-10 * gscale:
            ctx.violation('smooth:jacobian:value', {'N': N, 'template': k, 'i': i, 'got': float(J.reshape(-1)[i]), 'want': ref}); return
    ctx.ok('smooth:jacobian', ('sj', N, k))
    Href = np.array([[float(part([int(i == a) + int(j == a) for a in range(N)])) for j in range(N)] for i in range(N)])
    hs = max(1.0, np.max(np.abs(Href)))
    if not np.max(np.abs(H - Href)) <= 1e-9 * hs * 4:
        ctx.violation('smooth:hessian:value', {'N': N, 'template': k, 'err': float(np.max(np.abs(H - Href)))}); return
    ctx.ok('smooth:hessian', ('sh', N, k))
    Jm = [tuple(int(v) for v in row) for row in np.asarray(EI.generate_multi_indices(N, d))]
    refs = [float(part(list(a))) / math.prod(math.factorial(q) for q in a) for a in Jm]
    ts = max(1.0, max(abs(v) for v in refs)) * d ** d
    for a, got, ref in zip(Jm, T, refs):
        if not abs(got - ref) <= 1e-9 * ts:
            ctx.violation('smooth:tensor:value', {'N': N, 'template': k, 'alpha': a, 'got': float(got), 'want': ref}); return
    ctx.ok('smooth:tensor', ('st', N, k))
