"""C10 - zeroth coefficient, shapes and comparisons follow NumPy.
Monitor: shadow postcondition (O-np) on every wrapped public entry with a NumPy/SciPy counterpart: NumPy on the zeroth
coefficients of each direction, shape/len/size/ndim, comparison operators; plus: algopy-level functions called with plain
arrays/scalars only must return exactly what the NumPy/SciPy function of the same name returns."""
import operator
import numpy as np
import scipy.linalg, scipy.special
import algopy
from algopy import UTPM
from ..core import case_seed
from .. import gen, probe, monitors, pool, progs

PID = 'C10'
RULE = ('(a) ZerothMonitor on every depth-0 public UTPM call that has a NumPy/SciPy counterpart (table of 90 names) while the '
        'workloads of C01 C02 C03 C05 C07 C08 C09 C13 run; (b) directed sweep: every public function x argument shapes {(), (1,), (3,), '
        '(2,2), (2,3), (2,3,2), size 0} x operand kinds x D in {1,3} x P in {1,2,3} with different base points per direction; '
        'comparison operators on mixed orderings, equal values, arrays and scalars; (c) plain-array calls of every algopy-level '
        'function compared bit-for-bit (type, dtype, shape) with the NumPy/SciPy function; class = (call, P, shapes) resp. '
        '(function, shape); (d) module-level entry points (dot, outer, tile, diag, triu, tril, trace, sum, transpose, reshape, fft, ifft, maximum, minimum, prod, inv, det, solve) with polynomial and traced (Function) arguments over rank / extent combinations incl. single-element operands of rank >= 1, the returned object compared directly with NumPy; non-trivial = the call has at least one polynomial argument (a) / array argument (c)')
ASSUMPTIONS = ['NumPy/SciPy on the zeroth coefficients is the specification', 'singular vectors and general eigenvectors are excluded by the statement (C08 covers them)',
               '!= is derived by Python from __eq__ and only checked for single-element operands']
REQUIRED = ['zeroth-shadow', 'compare:__lt__', 'compare:__le__', 'compare:__gt__', 'compare:__ge__', 'compare:__eq__', 'compare:Function', 'plain', 'branches', 'entry', 'integer-typed-polynomial']

_mon = None


def setup(ctx, tier):
    global _mon
    _mon = monitors.ZerothMonitor(ctx)
    probe.install([_mon])


def teardown(ctx):
    probe.S.monitors = ()
    n = 0
    for k in [k for k in ctx.ops if k.startswith('zeroth:')]:
        v = ctx.ops.pop(k); n += v
        ctx.extra.setdefault('shadowed_calls_by_name', {})[k.split(':', 1)[1]] = v
    ctx.ops['zeroth-shadow'] = n


SHAPES = [(), (1,), (3,), (2, 2), (2, 3), (2, 3, 2), (0,)]


def cases(tier, seed):
    out = pool.pool_cases(tier, seed, ['c01', 'c02', 'c07', 'c08', 'c13', 'c09', 'c03', 'c05'], 120 if tier == 'quick' else 3000)
    if tier == 'thorough':
        out.insert(0, pool.ambient_case(PID))
    if tier == 'thorough':
        out.insert(0, pool.ambient_docs_case(PID))
    reps = 1 if tier == 'quick' else 60
    for rep in range(reps):
        for D in (1, 3):
            for P in (1, 2, 3):
                for shape in SHAPES:
                    out.append({'kind': 'sweep', 'seed': case_seed('C10', seed, 'sweep', D, P, shape, rep), 'params': {'D': D, 'P': P, 'shape': list(shape)}})
                out.append({'kind': 'compare', 'seed': case_seed('C10', seed, 'cmp', D, P, rep), 'params': {'D': D, 'P': P}})
                out.append({'kind': 'linalg', 'seed': case_seed('C10', seed, 'lin', D, P, rep), 'params': {'D': D, 'P': P}})
    for rep in range(reps):
        for D in (1, 2):
            for P in (1, 3):
                for wrap in ('utpm', 'function'):
                    out.append({'kind': 'entry', 'seed': case_seed('C10', seed, 'entry', D, P, wrap, rep), 'params': {'D': D, 'P': P, 'wrap': wrap}})
    for rep in range(reps):
        for D in (1, 2):
            out.append({'kind': 'intpoly', 'seed': case_seed('C10', seed, 'intpoly', D, rep), 'params': {'D': D, 'P': 1 + rep % 2}})
    for rep in range(reps * 3):
        out.append({'kind': 'plain', 'seed': case_seed('C10', seed, 'plain', rep), 'params': {}})
    return out


def run_case(ctx, case):
    if case['kind'] == 'pool':
        return pool.run_host(case)
    if case['kind'] in ('ambient', 'ambient-docs'):
        probe.S.suppress = True
        try:
            return pool.run_ambient(ctx, PID) if case['kind'] == 'ambient' else pool.run_ambient_docs(ctx, PID)
        finally:
            probe.S.suppress = False
    rng = gen.rng_of(case)
    return globals()['_' + case['kind']](ctx, case['params'], rng)


def _intpoly(ctx, p, rng):
    """polynomials whose coefficient array has an integer dtype (UTPM(numpy.array([[1, 2, 3]])), counts, indices, grid points): NumPy
    computes exp, sqrt, /, inv, ... of integer arrays in floating point, so does the zeroth coefficient here.  One mechanism per
    operation (`integer-typed-polynomial:<op>`): the operations of the pinned tree that compute in the integer dtype are listed
    as one known finding, any other operation is reported"""
    import operator
    D, P = p['D'], p['P']
    probe.S.suppress = True
    try:
        v = rng.integers(1, 5, size=(D, P, 3)); m = rng.integers(-2, 3, size=(D, P, 3, 3)); m[0] = m[0] + 6 * np.eye(3, dtype=int)
        w = rng.integers(1, 4, size=(D, P, 3))
        ops = [(nm, (lambda nm: lambda: getattr(algopy, nm)(UTPM(v.copy())))(nm), (lambda nm: lambda: getattr(np, nm)(v[0, pp]))(nm))
               for nm in ('exp', 'expm1', 'log', 'log1p', 'sqrt', 'sin', 'cos', 'tan', 'arctan', 'sinh', 'cosh', 'tanh', 'square', 'reciprocal', 'negative', 'absolute', 'sign')
               if hasattr(algopy, nm)]
        ops += [('truediv:poly/poly', lambda: UTPM(v.copy()) / UTPM(w.copy()), lambda: v[0, pp] / w[0, pp]),
                ('truediv:poly/int', lambda: UTPM(v.copy()) / 4, lambda: v[0, pp] / 4),
                ('truediv:int/poly', lambda: 3 / UTPM(v.copy()), lambda: 3 / v[0, pp]),
                ('truediv:poly/intarray', lambda: UTPM(v.copy()) / w[0, 0], lambda: v[0, pp] / w[0, 0]),
                ('itruediv:poly/=poly', lambda: operator.itruediv(UTPM(v.copy()), UTPM(w.copy())), lambda: v[0, pp] / w[0, pp]),
                ('mul:poly*float', lambda: UTPM(v.copy()) * 0.5, lambda: v[0, pp] * 0.5), ('add:poly+float', lambda: UTPM(v.copy()) + 0.5, lambda: v[0, pp] + 0.5),
                ('sub:float-poly', lambda: 0.5 - UTPM(v.copy()), lambda: 0.5 - v[0, pp]), ('mul:poly*poly', lambda: UTPM(v.copy()) * UTPM(w.copy()), lambda: v[0, pp] * w[0, pp]),
                ('pow:poly**2', lambda: UTPM(v.copy()) ** 2, lambda: v[0, pp] ** 2), ('pow:poly**0.5', lambda: UTPM(v.copy()) ** 0.5, lambda: v[0, pp] ** 0.5),
                ('pow:2.0**poly', lambda: 2.0 ** UTPM(v.copy()), lambda: 2.0 ** v[0, pp]), ('pow:poly**poly', lambda: UTPM(v.copy()) ** UTPM(w.copy()), lambda: v[0, pp].astype(float) ** w[0, pp]),
                ('iadd:poly+=float', lambda: operator.iadd(UTPM(v.copy()), 0.5), None), ('imul:poly*=float', lambda: operator.imul(UTPM(v.copy()), 0.5), None),
                ('inv', lambda: algopy.inv(UTPM(m.copy())), lambda: np.linalg.inv(m[0, pp])), ('det', lambda: algopy.det(UTPM(m.copy())), lambda: np.linalg.det(m[0, pp])),
                ('logdet', lambda: algopy.logdet(UTPM(m.copy())), lambda: np.log(np.linalg.det(m[0, pp]))),
                ('solve', lambda: algopy.solve(UTPM(m.copy()), UTPM(v.reshape(D, P, 3, 1).copy())), lambda: np.linalg.solve(m[0, pp], v[0, pp].reshape(3, 1))),
                ('dot', lambda: algopy.dot(UTPM(m.copy()), UTPM(v.copy())), lambda: np.dot(m[0, pp], v[0, pp])), ('trace', lambda: algopy.trace(UTPM(m.copy())), lambda: np.trace(m[0, pp])),
                ('sum', lambda: algopy.sum(UTPM(v.copy())), lambda: np.sum(v[0, pp])), ('fft', lambda: algopy.fft.fft(UTPM(v.copy())), lambda: np.fft.fft(v[0, pp])),
                ('qr:R', lambda: algopy.qr(UTPM(m.copy()))[1], lambda: np.linalg.qr(m[0, pp])[1] * np.sign(np.diag(np.linalg.qr(m[0, pp])[1]))[:, None]),
                ('eigh:values', lambda: algopy.eigh(UTPM((m + np.swapaxes(m, -1, -2)).copy()))[0], lambda: np.linalg.eigh(m[0, pp] + m[0, pp].T)[0]),
                ('cholesky', lambda: algopy.cholesky(UTPM((np.einsum('dpij,dpkj->dpik', m[:1], m[:1]).repeat(D, axis=0)).copy())), lambda: np.linalg.cholesky(m[0, pp] @ m[0, pp].T))]
        for name, call, ref in ops:
            mech = 'integer-typed-polynomial:' + name
            try:
                with np.errstate(all='ignore'):
                    y = call()
            except Exception as e:
                try:
                    pp = 0
                    with np.errstate(all='ignore'):
                        ref() if ref else None
                except Exception:
                    ctx.skip('numpy-rejects:' + name); continue          # NumPy refuses the integer operand too (in-place forms, int ** -1)
                if ref is None:
                    ctx.skip('numpy-rejects:' + name); continue
                ctx.violation(mech + ':raises', {'operation': name, 'D': D, 'P': P, 'error': repr(e)[:160]}); continue
            if ref is None or not isinstance(y, UTPM):
                continue
            bad = None
            for pp in range(P):
                with np.errstate(all='ignore'):
                    r = np.asarray(ref())
                g = y.data[0, pp]
                if name == 'qr:R':
                    g = g * np.sign(np.diag(g))[:, None]
                if g.shape != r.shape or not np.allclose(g, r, rtol=1e-10, atol=1e-12, equal_nan=True):
                    bad = {'direction': pp, 'got': np.asarray(g).tolist(), 'numpy': r.tolist(), 'result_dtype': str(y.data.dtype)}
                    break
            if bad:
                ctx.violation(mech, dict(bad, operation=name, D=D, P=P)); continue
            ctx.ok('integer-typed-polynomial', ('intpoly', name, D, P))
    finally:
        probe.S.suppress = False


def _t(ctx, f):
    """run one call under the monitor; exceptions of the SUT are counted (C10 does not promise completion for every shape)"""
    try:
        f()
    except Exception as e:
        ctx.skip('sut-raises:' + type(e).__name__)


UNARY = [('exp', 'R'), ('expm1', 'R'), ('log', 'pos'), ('log1p', 'gtm1'), ('sqrt', 'pos'), ('sin', 'R'), ('cos', 'R'), ('tan', 'tan'), ('arcsin', 'unit'),
         ('arccos', 'unit'), ('arctan', 'R'), ('sinh', 'R'), ('cosh', 'R'), ('tanh', 'R'), ('sign', 'nz'), ('absolute', 'nz'), ('square', 'R'),
         ('negative', 'R'), ('reciprocal', 'nz')]
SPECIAL = [('erf', 'R'), ('erfi', 'R'), ('dawsn', 'R'), ('logit', 'logit'), ('expit', 'R'), ('gammaln', 'gamma'), ('psi', 'gamma'), ('gammaln', 'gamma_neg'), ('psi', 'gamma_neg')]


def _sweep(ctx, p, rng):
    D, P, shape = p['D'], p['P'], tuple(p['shape'])
    mk = lambda dom: UTPM(gen.series_data(rng, D, P, shape, dom, 'random', False, 0.5))
    for nm, dom in UNARY:
        x = mk(dom); _t(ctx, lambda: getattr(algopy, nm)(x))
    for nm, dom in SPECIAL:
        x = mk(dom); _t(ctx, lambda: getattr(algopy.special, nm)(x))
    x = mk('gamma'); _t(ctx, lambda: algopy.special.polygamma(2, x)); _t(ctx, lambda: algopy.special.hyperu(1.5, 2.25, x))
    x = mk('nz'); _t(ctx, lambda: algopy.special.botched_clip(-0.9, 0.9, x)); _t(ctx, lambda: abs(x)); _t(ctx, lambda: -x)
    x, y = mk('R'), mk('nz')
    c = rng.normal(size=shape) + 2.0
    for op in (operator.add, operator.sub, operator.mul, operator.truediv):
        _t(ctx, lambda: op(x, y)); _t(ctx, lambda: op(x, 2.5)); _t(ctx, lambda: op(2.5, y)); _t(ctx, lambda: op(x, c)); _t(ctx, lambda: op(c, y))
    xp = mk('pos')
    for r in (2, 3, -1, 0.5, 2.5, 5, 6, 9, np.int64(11), 12, -3):
        _t(ctx, lambda: xp ** r)
    _t(ctx, lambda: 2.0 ** x); _t(ctx, lambda: xp ** x)
    _t(ctx, lambda: algopy.minimum(x, y)); _t(ctx, lambda: algopy.maximum(x, y))
    _t(ctx, lambda: algopy.sum(x)); _t(ctx, lambda: algopy.prod(y) if len(shape) <= 1 else None)
    for ax in range(-len(shape), len(shape)):
        _t(ctx, lambda: algopy.sum(x, axis=ax))
    _t(ctx, lambda: x.T); _t(ctx, lambda: algopy.transpose(x)); _t(ctx, lambda: algopy.real(x)); _t(ctx, lambda: algopy.imag(x)); _t(ctx, lambda: algopy.conjugate(x))
    # a polynomial exponent whose value is an integer, on base values of either sign: numpy.power((-2.), 3.) = -8.
    xe = mk('nz'); ye = mk('R'); ye.data[0] = np.round(ye.data[0] * 2.0)
    with np.errstate(all='ignore'):
        _t(ctx, lambda: xe ** ye)
    n = int(np.prod(shape))
    if n:
        _t(ctx, lambda: algopy.reshape(x, (n,))); _t(ctx, lambda: x.reshape((1, n)))
    _t(ctx, lambda: algopy.tile(x, 2)); _t(ctx, lambda: algopy.tile(x, (2, 1)))
    if len(shape) >= 1:
        _t(ctx, lambda: x[0] if shape[0] else None); _t(ctx, lambda: x[::-1]); _t(ctx, lambda: x[..., :1]); _t(ctx, lambda: len(x))
        _t(ctx, lambda: algopy.fft.fft(x)); _t(ctx, lambda: algopy.fft.ifft(x, axis=0))
    if len(shape) == 1:
        _t(ctx, lambda: algopy.dot(x, y)); _t(ctx, lambda: algopy.outer(x, y)); _t(ctx, lambda: algopy.diag(x)); _t(ctx, lambda: UTPM.max(x)); _t(ctx, lambda: UTPM.argmax(x))
        _t(ctx, lambda: algopy.dot(x, c)); _t(ctx, lambda: algopy.dot(c, y))
    if len(shape) == 2:
        _t(ctx, lambda: algopy.dot(x, y.T)); _t(ctx, lambda: algopy.diag(x)); _t(ctx, lambda: algopy.diag(x, 1)); _t(ctx, lambda: algopy.trace(x))
        _t(ctx, lambda: algopy.triu(x)); _t(ctx, lambda: algopy.tril(x, -1)); _t(ctx, lambda: algopy.dot(x, c.T)); _t(ctx, lambda: algopy.dot(c.T, y))
    if len(shape) == 3:
        _t(ctx, lambda: algopy.dot(x, y[0]))
    # entries that are inf or nan (masked values, overflowed intermediates) through the operations that only select, move or discard entries
    if n:
        d = gen.series_data(rng, D, P, shape, 'R', 'random', False, 0.5)
        flat = d[0].reshape(P, n)
        for pp in range(P):
            for v in (np.inf, -np.inf, np.nan):
                flat[pp, int(rng.integers(n))] = v
        d[0] = flat.reshape((P,) + shape)
        x = UTPM(d)
        _t(ctx, lambda: -x); _t(ctx, lambda: x.T); _t(ctx, lambda: algopy.reshape(x, (n,))); _t(ctx, lambda: algopy.tile(x, 2)); _t(ctx, lambda: algopy.real(x))
        if len(shape) >= 1:
            _t(ctx, lambda: x[::-1]); _t(ctx, lambda: x[..., :1])
        if len(shape) == 1:
            _t(ctx, lambda: algopy.diag(x))
        if len(shape) == 2:
            for k in (0, 1, -1):
                _t(ctx, lambda: algopy.triu(x, k)); _t(ctx, lambda: algopy.tril(x, k)); _t(ctx, lambda: algopy.diag(x, k))
            if shape[0] == shape[1]:
                _t(ctx, lambda: algopy.symvec(x, 'L')); _t(ctx, lambda: algopy.symvec(x, 'U'))
    ctx.ok('sweep', ('sweep', D, P, shape))


def _linalg(ctx, p, rng):
    D, P = p['D'], p['P']
    for n in (1, 2, 4):
        A = UTPM(gen.series_data(rng, D, P, (n, n), 'wcperm', 'random', False, 0.4))
        B = UTPM(gen.series_data(rng, D, P, (n, 2), 'R', 'random', False, 0.4))
        for f in (lambda: algopy.inv(A), lambda: algopy.solve(A, B), lambda: algopy.det(A), lambda: algopy.solve(A, B.data[0, 0]),
                  lambda: algopy.qr(A), lambda: algopy.qr_full(A), lambda: algopy.lu(A), lambda: algopy.eig(A) if D <= 2 else None, lambda: algopy.svd(A)):
            _t(ctx, f)
        Apos = UTPM(gen.series_data(rng, D, P, (n, n), 'wcperm_pos', 'random', False, 0.4))
        _t(ctx, lambda: algopy.logdet(Apos))
        S = gen.series_data(rng, D, P, (n, n), 'R', 'random', False, 0.3)
        for pp in range(P):
            S[0, pp] = gen.sym_with_gaps(rng, n)
        S = 0.5 * (S + np.swapaxes(S, -1, -2))
        _t(ctx, lambda: algopy.eigh(UTPM(S)))
        Sp = S.copy()
        for pp in range(P):
            Sp[0, pp] = gen.spd(rng, n)
        _t(ctx, lambda: algopy.cholesky(UTPM(Sp)))
        _t(ctx, lambda: algopy.symvec(UTPM(S))); _t(ctx, lambda: algopy.vecsym(UTPM(rng.normal(size=(D, P, n * (n + 1) // 2)))))
    for (M, N) in ((4, 2), (2, 3)):
        T = UTPM(gen.series_data(rng, D, P, (M, N), 'R', 'random', False, 0.4))
        _t(ctx, lambda: algopy.qr(T)); _t(ctx, lambda: algopy.svd(T))
        if M >= N:
            _t(ctx, lambda: algopy.qr_full(T))
    ctx.ok('linalg-sweep', ('lin', D, P))


def _compare(ctx, p, rng):
    D, P = p['D'], p['P']
    for shape in [(), (1,), (3,), (2, 2)]:
        for mode in ('all-less', 'mixed', 'equal', 'one-equal', 'nearly-equal'):
            a = gen.series_data(rng, D, P, shape, 'R', 'random', False, 1.0)
            b = a.copy()
            b[1:] = rng.normal(size=b[1:].shape) * 3        # higher coefficients must not matter
            if mode == 'all-less':
                b[0] = a[0] + rng.uniform(0.1, 1.0, size=a[0].shape)
            elif mode == 'mixed':
                b[0] = a[0] + rng.choice([-1.0, 1.0], size=a[0].shape) * rng.uniform(0.1, 1.0, size=a[0].shape)
            elif mode == 'nearly-equal':
                b[0] = a[0] * (1.0 + 1e-9) + 1e-12          # different, but closer than any 'allclose' tolerance
            elif mode == 'one-equal':
                b[0] = a[0] + rng.uniform(0.1, 1.0, size=a[0].shape)
                if a[0].size:
                    b[0].reshape(-1)[0] = a[0].reshape(-1)[0]
            X, Y = UTPM(a), UTPM(b)
            for op in (operator.lt, operator.le, operator.gt, operator.ge, operator.eq):
                _t(ctx, lambda: op(X, Y)); _t(ctx, lambda: op(Y, X))
                s = float(np.median(a[0])) if a[0].size else 0.0
                _t(ctx, lambda: op(X, s)); _t(ctx, lambda: op(s, X))
                _t(ctx, lambda: op(X, b[0, 0])); _t(ctx, lambda: op(X, np.float64(s)))
    # a single precision polynomial against double precision constants that differ from its values by less than single precision
    # resolves (0.1 against float32(0.1) = 0.100000001490...): NumPy compares in double precision for a numpy.float64 scalar, array or
    # list of them - the constant must not be rounded to the type of the coefficients first
    for shape in [(), (3,)]:
        a = gen.series_data(rng, D, P, shape, 'R', 'random', False, 1.0).astype(np.float32)
        X = UTPM(a.copy())
        base = np.asarray(a[0, 0], dtype=np.float64)
        for delta in (0.0, 1e-9, -1e-9):
            c = base * (1.0 + delta)
            for op in (operator.lt, operator.le, operator.gt, operator.ge, operator.eq):
                if P == 1 or np.all(a[0] == a[0, :1]):
                    _t(ctx, lambda: op(X, c)); _t(ctx, lambda: op(X, c.tolist() if shape else np.float64(c)))
                _t(ctx, lambda: op(X, np.float64(np.mean(base)) * (1.0 + delta)))
    # clipping with the lower bound above the upper one (per element, after broadcasting): NumPy returns the upper bound
    for shape in [(3,), (2, 2)]:
        a = gen.series_data(rng, D, P, shape, 'R', 'random', False, 1.0)
        with np.errstate(all='ignore'):
            _t(ctx, lambda: algopy.special.botched_clip(0.5, -0.5, UTPM(a.copy())))
            _t(ctx, lambda: UTPM.botched_clip(np.full(shape, 0.25), np.linspace(-1.0, 1.0, int(np.prod(shape))).reshape(shape), UTPM(a.copy())))
    # selections between polynomials of which one has infinite base values (an open bound): NumPy returns the finite operand
    for shape in [(3,), (2, 2)]:
        a = gen.series_data(rng, D, P, shape, 'R', 'random', False, 1.0); b = gen.series_data(rng, D, P, shape, 'R', 'random', False, 1.0)
        a[0].reshape(P, -1)[:, 0] = np.inf; b[0].reshape(P, -1)[:, -1] = -np.inf
        a[0].reshape(P, -1)[:, 1] = np.nan           # NumPy's minimum / maximum propagate a nan of either operand
        if shape == (2, 2):
            a = a.astype(np.float32)                 # operands of different precision: the result has the wider one, in either order
        with np.errstate(all='ignore'):
            _t(ctx, lambda: algopy.minimum(UTPM(a.copy()), UTPM(b.copy()))); _t(ctx, lambda: algopy.maximum(UTPM(a.copy()), UTPM(b.copy())))
            _t(ctx, lambda: algopy.minimum(UTPM(b.copy()), UTPM(a.copy()))); _t(ctx, lambda: algopy.maximum(UTPM(b.copy()), UTPM(a.copy())))
    # operands of different but broadcastable shapes (a matrix against one of its rows / columns, P directions against a constant
    # polynomial with one direction): NumPy compares the broadcast elements
    for (sa, sb) in [((3, 4), (1, 4)), ((3, 4), (4,)), ((3, 2), (3, 1)), ((2, 3), ())]:
        for mode in ('equal', 'one-different', 'less'):
            b = gen.series_data(rng, D, P, sb, 'R', 'random', False, 1.0)
            a = np.empty((D, P) + sa); a[...] = np.broadcast_to(b.reshape((D, P) + (1,) * (len(sa) - len(sb)) + sb), (D, P) + sa)
            a[1:] = rng.normal(size=a[1:].shape)
            if mode == 'one-different':
                a[0].reshape(-1)[-1] += 0.5
            elif mode == 'less':
                a[0] -= rng.uniform(0.1, 1.0, size=a[0].shape)
            X, Y = UTPM(a), UTPM(b)
            for op in (operator.lt, operator.le, operator.gt, operator.ge, operator.eq):
                _t(ctx, lambda: op(X, Y)); _t(ctx, lambda: op(Y, X))
            if P > 1 and mode != 'one-different':
                Y1 = UTPM(np.ascontiguousarray(b[:, :1]) * 1.0); X1 = UTPM(a.copy()); X1.data[0] = np.broadcast_to(a[0, :1], a[0].shape)
                for op in (operator.lt, operator.le, operator.gt, operator.ge, operator.eq):
                    _t(ctx, lambda: op(X1, Y1)); _t(ctx, lambda: op(Y1, X1))
    # comparisons of traced values (Function) delegate to the values they hold
    from algopy import CGraph, Function
    for shape in [(), (3,)]:
        a = gen.series_data(rng, D, P, shape, 'R', 'random', False, 1.0)
        b = a + rng.choice([-1.0, 1.0], size=a.shape) * rng.uniform(0.1, 1.0, size=a.shape)
        cg = CGraph()
        FA, FB = Function(UTPM(a.copy())), Function(UTPM(b.copy()))
        cg.trace_off()
        for op in (operator.lt, operator.le, operator.gt, operator.ge, operator.eq):
            want = bool(np.all(op(a[0], b[0])))
            for lhs, rhs, tag in ((FA, FB, 'FF'), (FA, UTPM(b.copy()), 'FU'), (FA, b[0, 0] if P == 1 else None, 'Fa')):
                if rhs is None:
                    continue
                w = want if tag != 'Fa' else bool(np.all(op(a[0], b[0, 0])))
                try:
                    got = bool(op(lhs, rhs))
                except Exception as e:
                    ctx.violation('compare:Function:raises', {'op': op.__name__, 'operands': tag, 'error': repr(e)[:160]}); return
                if got != w:
                    ctx.violation('compare:Function:%s' % op.__name__, {'op': op.__name__, 'operands': tag, 'got': got, 'want': w}); return
                ctx.ok('compare:Function', ('cmpF', op.__name__, tag, w, shape))
        # equality of a traced value with an equal value (a traced `if x == c:` takes the branch NumPy takes)
        try:
            got = bool(FA == UTPM(a.copy())) and bool(FA == Function(UTPM(a.copy()))) and (P > 1 or shape != () or bool(FA == a[0, 0]))
        except Exception as e:
            ctx.violation('compare:Function:raises', {'op': 'eq', 'error': repr(e)[:160]}); return
        if not got:
            ctx.violation('compare:Function:eq', {'op': 'eq', 'operands': 'a traced value and an equal value', 'got': False, 'want': True})
        else:
            ctx.ok('compare:Function', ('cmpF', 'eq-equal', shape))
    # data-dependent branches take the same path with and without derivative propagation
    for _ in range(6):
        x0 = rng.normal(size=3)

        def prog(x):
            if x[0] > x[1]:
                y = x[0] * x[2]
            elif x[1] >= 0.2:
                y = algopy.sin(x[1])
            else:
                y = x[2] - x[0]
            if y < 0:
                y = -y
            if np.all(x <= 0.5) if isinstance(x, np.ndarray) else (x <= 0.5):      # UTPM: all-elements convention
                y = y + 1.0
            return y
        d = rng.normal(size=(D, P, 3)) * 5
        for pp in range(P):
            d[0, pp] = x0
        want = prog(x0)
        try:
            got = prog(UTPM(d))
        except Exception as e:
            ctx.violation('branches:raises', {'error': repr(e)[:200]}); return
        if not (isinstance(got, UTPM) and np.allclose(got.data[0], want, rtol=1e-13)):
            ctx.violation('branches:different-path', {'x0': x0.tolist(), 'want': float(want)}); return
        ctx.ok('branches', ('branches', D, P, bool(x0[0] > x0[1]), bool(x0[1] >= 0.2)))


def _entry(ctx, p, rng):
    """module-level entry points (algopy.dot, algopy.tile, ...) called with polynomial or traced arguments: the object handed
    back is compared directly with NumPy on the zeroth coefficients (value, shape, ndim, size, len), whatever methods the
    entry point chose to dispatch to; degenerate extents (one element with ndim >= 1, one row / column) included"""
    from algopy import Function
    D, P, wrap = p['D'], p['P'], p['wrap']

    def U(shape, dom='R'):
        return ('u', gen.series_data(rng, D, P, tuple(shape), dom, 'random', False, 0.5))

    def Cst(shape):
        return ('c', rng.normal(size=shape) + 0.5)
    calls = []
    for sa, sb in [((3,), (3,)), ((1,), (1,)), ((2, 3), (3,)), ((3, 1), (1,)), ((1, 1), (1,)), ((1,), (1, 4)), ((2, 3), (3, 2)), ((2, 3, 1), (1,)),
                   ((3,), (3, 1)), ((1, 3), (3, 1)), ((3, 1), (1, 3)), ((2, 2, 3), (3, 2))]:
        calls.append(('dot:UU', algopy.dot, np.dot, [U(sa), U(sb)], {}))
        calls.append(('dot:UC', algopy.dot, np.dot, [U(sa), Cst(sb)], {}))
        calls.append(('dot:CU', algopy.dot, np.dot, [Cst(sa), U(sb)], {}))
    for sa, sb in [((3,), (2,)), ((1,), (3,)), ((1,), (1,)), ((3,), (1,))]:
        calls.append(('outer', algopy.outer, np.outer, [U(sa), U(sb)], {}))
        calls.append(('outer:CU', algopy.outer, np.outer, [Cst(sa), U(sb)], {}))
    for shp, reps in [((3,), 2), ((3,), (2, 2)), ((2, 3), 2), ((2, 3), (2,)), ((), 3), ((2, 3), (1, 2, 2)), ((1,), (3,)), ((2, 1), (1, 3))]:
        calls.append(('tile', algopy.tile, np.tile, [U(shp), ('c', reps)], {}))
    for shp in [(3,), (1,), (3, 3), (2, 4), (4, 2), (1, 1)]:
        for k in (0, 1, -1):
            calls.append(('diag', algopy.diag, np.diag, [U(shp), ('c', k)], {}))
            calls.append(('diag:keyword', algopy.diag, np.diag, [U(shp)], {'k': k}))
            if len(shp) == 2:
                calls.append(('triu', algopy.triu, np.triu, [U(shp), ('c', k)], {}))
                calls.append(('tril', algopy.tril, np.tril, [U(shp), ('c', k)], {}))
                calls.append(('triu:keyword', algopy.triu, np.triu, [U(shp)], {'k': k}))
                calls.append(('tril:keyword', algopy.tril, np.tril, [U(shp)], {'k': k}))
    for shp in [(3, 3), (4, 2), (2, 4), (1, 1), (3, 1)]:
        calls.append(('trace', algopy.trace, np.trace, [U(shp)], {}))
    for shp in [(2, 3), (1, 3), (3, 1), (2, 3, 2), (1,)]:
        calls.append(('sum', algopy.sum, np.sum, [U(shp)], {}))
        for ax in range(-len(shp), len(shp)):
            calls.append(('sum:axis', algopy.sum, np.sum, [U(shp)], {'axis': ax}))
        calls.append(('transpose', algopy.transpose, np.transpose, [U(shp)], {}))
        calls.append(('reshape', algopy.reshape, np.reshape, [U(shp), ('c', (int(np.prod(shp)),))], {}))
        calls.append(('reshape:-1', algopy.reshape, np.reshape, [U(shp), ('c', (-1, 1))], {}))
    for shp in [(4,), (3, 4), (2, 3, 2), (1,)]:
        calls.append(('fft', algopy.fft.fft, np.fft.fft, [U(shp)], {}))
        calls.append(('ifft', algopy.fft.ifft, np.fft.ifft, [U(shp)], {}))
        for ax in range(-len(shp), len(shp)):
            calls.append(('fft:axis', algopy.fft.fft, np.fft.fft, [U(shp)], {'axis': ax}))
            calls.append(('ifft:axis', algopy.fft.ifft, np.fft.ifft, [U(shp)], {'axis': ax}))
    for shp in [(3,), (1,), (2, 1), ()]:
        calls.append(('maximum', algopy.maximum, np.maximum, [U(shp), U(shp)], {}))
        calls.append(('minimum', algopy.minimum, np.minimum, [U(shp), U(shp)], {}))
        calls.append(('prod', algopy.prod, np.prod, [U(shp, 'nz')], {}))
    for n in (1, 3):
        Md = gen.series_data(rng, D, P, (n, n), 'R', 'random', False, 0.3)
        for pp in range(P):
            Md[0, pp] = gen.well_conditioned(rng, n, n) + 2 * np.eye(n)
        calls.append(('inv', algopy.inv, np.linalg.inv, [('u', Md)], {}))
        calls.append(('det', algopy.det, np.linalg.det, [('u', Md)], {}))
        calls.append(('solve', algopy.solve, np.linalg.solve, [('u', Md), U((n, 2))], {}))
        calls.append(('solve:col', algopy.solve, np.linalg.solve, [('u', Md), U((n, 1))], {}))
    # operators at operands that produce exact zeros: the sign of a zero is part of NumPy's result (1/(c - x) is +inf or -inf)
    zd = gen.series_data(rng, D, P, (6,), 'R', 'random', False, 0.5)
    zd[0] = np.array([2.5, -2.5, 0.0, -0.0, 1.0, -1.0])
    for nm_, f_ in [('c-x', lambda a: 2.5 - a), ('x-c', lambda a: a - 2.5), ('x+c', lambda a: a + 2.5), ('c+x', lambda a: -2.5 + a), ('neg', lambda a: -a),
                    ('x*0', lambda a: a * 0.0), ('0*x', lambda a: -0.0 * a), ('x/c', lambda a: a / -1.0), ('arr-x', lambda a: np.array([2.5, -2.5, 0.0, 0.0, 1.0, 1.0]) - a),
                    ('x-arr', lambda a: a - np.array([2.5, -2.5, 0.0, 0.0, 1.0, 1.0])), ('x-x', lambda a: a - a), ('x*x', lambda a: a * a), ('npc-x', lambda a: np.float64(2.5) - a)]:
        calls.append(('signed-zero:' + nm_, f_, f_, [('u', zd)], {}))
    for (name, fa, fn, spec, kw) in calls:
        args = []
        for kind, v in spec:
            if kind == 'u':
                u = UTPM(v.copy())
                args.append(Function(u) if wrap == 'function' else u)
            else:
                args.append(v.copy() if isinstance(v, np.ndarray) else v)
        try:
            refs = []
            with np.errstate(all='ignore'):
                for pp in range(P):
                    refs.append(np.asarray(fn(*[(v[0, pp] if kind == 'u' else v) for kind, v in spec], **kw)))
        except Exception:
            ctx.skip('numpy-rejects:' + name); continue
        try:
            with np.errstate(all='ignore'):
                r = fa(*args, **kw)
        except Exception as e:
            ctx.skip('sut-raises:%s:%s' % (name.split(':')[0], type(e).__name__)); continue
        if wrap == 'function':
            r = getattr(r, 'x', r)
        info = {'entry': name, 'wrap': wrap, 'D': D, 'P': P, 'shapes': [list(np.shape(v)[2:]) if k == 'u' else (list(np.shape(v)) if isinstance(v, np.ndarray) else repr(v)) for k, v in spec], 'kwargs': repr(kw)}
        key = name.split(':')[0]
        if not isinstance(r, UTPM):
            ctx.violation('entry:%s:result-type' % key, dict(info, got=type(r).__name__)); continue
        want = refs[0].shape
        if r.data.shape[:2] != (D, P) or r.data.shape[2:] != want or r.shape != want or r.ndim != len(want) or r.size != int(np.prod(want, dtype=int)):
            ctx.violation('entry:%s:shape' % key, dict(info, got=list(r.data.shape), want=[D, P] + list(want))); continue
        bad = None
        for pp in range(P):
            g = r.data[0, pp]; ref = refs[pp]
            sc = max(1.0, float(np.max(np.abs(ref))) if ref.size else 1.0) * max(1, max([np.shape(v)[-1] if (k == 'u' and np.ndim(v) > 2) else 1 for k, v in spec]))
            if ref.size and not np.max(np.abs(g - ref)) <= 1e-12 * sc:
                bad = pp; break
        if bad is not None:
            ctx.violation('entry:%s:value' % key, dict(info, direction=bad)); continue
        if key == 'signed-zero':
            sb = next((pp for pp in range(P) if not np.array_equal(np.signbit(r.data[0, pp])[refs[pp] == 0], np.signbit(refs[pp])[refs[pp] == 0])), None)
            if sb is not None:
                ctx.violation('entry:signed-zero:%s' % name.split(':')[1], dict(info, direction=sb, got=repr(r.data[0, sb])[:120], want=repr(refs[sb])[:120])); continue
        ctx.ok('entry', ('entry', name, wrap, tuple(tuple(x) if isinstance(x, list) else x for x in info['shapes']), repr(kw), D, P))


def _same_plain(a, b):
    if isinstance(b, tuple) or isinstance(a, tuple):
        return isinstance(a, tuple) == isinstance(b, tuple) and len(a) == len(b) and all(_same_plain(x, y) for x, y in zip(a, b))
    if type(a) is not type(b):
        return False
    a_, b_ = np.asarray(a), np.asarray(b)
    return a_.dtype == b_.dtype and a_.shape == b_.shape and np.array_equal(a_, b_, equal_nan=True)


def _plain(ctx, p, rng):
    sp = scipy.special
    shape = [(), (3,), (2, 3), (2, 2, 2), (0,)][int(rng.integers(5))]
    x = rng.uniform(0.2, 0.8, size=shape); y = rng.uniform(0.5, 2.0, size=shape)
    xs = float(rng.uniform(0.2, 0.8))
    M = gen.well_conditioned(rng, 3) + 3 * np.eye(3); S = gen.spd(rng, 3); B = rng.normal(size=(3, 2)); v = rng.normal(size=3)
    tests = []
    for nm in ('exp', 'expm1', 'log', 'log1p', 'sqrt', 'sin', 'cos', 'tan', 'arcsin', 'arccos', 'arctan', 'sinh', 'cosh', 'tanh', 'sign', 'absolute', 'square', 'negative', 'reciprocal'):
        tests.append((nm, lambda nm=nm: getattr(algopy, nm)(x), lambda nm=nm: getattr(np, nm)(x)))
        tests.append((nm + ':scalar', lambda nm=nm: getattr(algopy, nm)(xs), lambda nm=nm: getattr(np, nm)(xs)))
    for nm in ('erf', 'dawsn', 'logit', 'expit', 'gammaln', 'psi', 'erfi'):
        tests.append((nm, lambda nm=nm: getattr(algopy.special, nm)(x), lambda nm=nm: getattr(sp, nm)(x)))
    xneg = -rng.integers(0, 3, size=shape) - rng.uniform(0.25, 0.75, size=shape)          # between the poles on the negative axis
    for nm in ('gammaln', 'psi'):
        tests.append((nm + ':negative-axis', lambda nm=nm: getattr(algopy.special, nm)(xneg), lambda nm=nm: getattr(sp, nm)(xneg)))
    tests += [
        ('polygamma:negative-axis', lambda: algopy.special.polygamma(1, xneg), lambda: sp.polygamma(1, xneg)),
        ('polygamma', lambda: algopy.special.polygamma(1, x), lambda: sp.polygamma(1, x)), ('hyperu', lambda: algopy.special.hyperu(1.5, 2.25, x), lambda: sp.hyperu(1.5, 2.25, x)),
        ('minimum', lambda: algopy.minimum(x, y), lambda: np.minimum(x, y)), ('maximum', lambda: algopy.maximum(x, y), lambda: np.maximum(x, y)),
        ('sum', lambda: algopy.sum(x), lambda: np.sum(x)), ('prod', lambda: algopy.prod(y), lambda: np.prod(y)),
        ('real', lambda: algopy.real(x + 1j * y), lambda: np.real(x + 1j * y)), ('imag', lambda: algopy.imag(x + 1j * y), lambda: np.imag(x + 1j * y)),
        ('conjugate', lambda: algopy.conjugate(x + 1j * y), lambda: np.conjugate(x + 1j * y)),
        ('dot', lambda: algopy.dot(M, v), lambda: np.dot(M, v)), ('outer', lambda: algopy.outer(v, v[:2]), lambda: np.outer(v, v[:2])),
        ('inv', lambda: algopy.inv(M), lambda: np.linalg.inv(M)), ('solve', lambda: algopy.solve(M, B), lambda: np.linalg.solve(M, B)),
        ('det', lambda: algopy.det(M), lambda: np.linalg.det(M)), ('logdet', lambda: algopy.logdet(S), lambda: np.linalg.slogdet(S)[1]),
        ('trace', lambda: algopy.trace(M), lambda: np.trace(M)), ('diag', lambda: algopy.diag(M), lambda: np.diag(M)), ('diag:v', lambda: algopy.diag(v), lambda: np.diag(v)),
        ('triu', lambda: algopy.triu(M), lambda: np.triu(M)), ('tril', lambda: algopy.tril(M), lambda: np.tril(M)),
        ('reshape', lambda: algopy.reshape(B, (6,)), lambda: np.reshape(B, (6,))), ('tile', lambda: algopy.tile(v, 2), lambda: np.tile(v, 2)),
        ('transpose', lambda: algopy.transpose(B), lambda: np.transpose(B)),
        ('qr', lambda: tuple(algopy.qr(B)), lambda: tuple(np.linalg.qr(B))), ('qr_full', lambda: tuple(algopy.qr_full(B)), lambda: tuple(scipy.linalg.qr(B))),
        ('cholesky', lambda: algopy.cholesky(S), lambda: np.linalg.cholesky(S)), ('lu', lambda: tuple(algopy.lu(M)), lambda: tuple(scipy.linalg.lu(M))),
        ('eigh', lambda: tuple(algopy.eigh(S)), lambda: tuple(np.linalg.eigh(S))), ('eig', lambda: tuple(algopy.eig(M)), lambda: tuple(np.linalg.eig(M))),
        ('svd', lambda: tuple(algopy.svd(B)), lambda: tuple(np.linalg.svd(B))),
        ('fft', lambda: algopy.fft.fft(B, axis=0), lambda: np.fft.fft(B, axis=0)), ('ifft', lambda: algopy.fft.ifft(v), lambda: np.fft.ifft(v)),
        ('zeros', lambda: algopy.zeros((2, 3), dtype=float), lambda: np.zeros((2, 3), dtype=float)), ('ones', lambda: algopy.ones(3, dtype=v), lambda: np.ones(3, dtype=v.dtype)),
        ('zeros_like', lambda: algopy.zeros_like(B), lambda: np.zeros_like(B)), ('ones_like', lambda: algopy.ones_like(B), lambda: np.ones_like(B)),
        # the dtype argument in the spellings NumPy accepts
        ('zeros:dtype-str', lambda: algopy.zeros((2, 3), dtype='float32'), lambda: np.zeros((2, 3), dtype='float32')),
        ('ones:dtype-str', lambda: algopy.ones(3, dtype='complex64'), lambda: np.ones(3, dtype='complex64')),
        ('zeros:dtype-object', lambda: algopy.zeros(2, dtype=np.dtype('int16')), lambda: np.zeros(2, dtype=np.dtype('int16'))),
        ('ones:dtype-object', lambda: algopy.ones((1, 2), dtype=np.dtype('float64')), lambda: np.ones((1, 2), dtype=np.dtype('float64'))),
        ('zeros:dtype-None', lambda: algopy.zeros(3, dtype=None), lambda: np.zeros(3, dtype=None)), ('ones:dtype-None', lambda: algopy.ones((2, 1), dtype=None), lambda: np.ones((2, 1), dtype=None)),
        ('zeros:shape-list', lambda: algopy.zeros([2, 3]), lambda: np.zeros([2, 3])), ('ones:shape-array', lambda: algopy.ones(np.array([2, 1])), lambda: np.ones(np.array([2, 1]))),
        ('zeros:dtype-numpy-type', lambda: algopy.zeros(2, dtype=np.float32), lambda: np.zeros(2, dtype=np.float32)),
        # selections with infinite operands (an "unbounded" bound): the finite operand comes back
        ('minimum:inf', lambda: algopy.minimum(np.where(x > 0.5, np.inf, x), y), lambda: np.minimum(np.where(x > 0.5, np.inf, x), y)),
        ('maximum:-inf', lambda: algopy.maximum(np.where(x > 0.5, -np.inf, x), y), lambda: np.maximum(np.where(x > 0.5, -np.inf, x), y)),
        ('clip', lambda: algopy.special.botched_clip(0.3, 0.6, x), lambda: np.clip(x, 0.3, 0.6)),
        ('clip:lower-bound-above-upper', lambda: algopy.special.botched_clip(0.6, 0.3, x), lambda: np.clip(x, 0.6, 0.3)),          # NumPy documents a_max for a_min > a_max
    ]
    for nm, fa, fn in tests:
        try:
            with np.errstate(all='ignore'):
                want = fn()
        except Exception:
            ctx.skip('numpy-rejects:' + nm); continue
        try:
            with np.errstate(all='ignore'):
                got = fa()
        except Exception as e:
            ctx.violation('plain:%s:raises' % nm.split(':')[0], {'fn': nm, 'shape': shape, 'error': repr(e)[:200]}); continue
        if not _same_plain(got, want):
            ctx.violation('plain:%s:differs' % nm.split(':')[0], {'fn': nm, 'shape': shape, 'got_type': type(got).__name__, 'want_type': type(want).__name__,
                                                                   'got_dtype': str(getattr(np.asarray(got) if not isinstance(got, tuple) else None, 'dtype', None))}); continue
        ctx.ok('plain', ('plain', nm, shape), exact=True)


def finish(ctx):
    from .. import core
    ctx.extra['distinct_call_names_shadowed'] = len(ctx.extra.get('shadowed_calls_by_name', {}))
    return core.finish(ctx, REQUIRED, RULE, assumptions=ASSUMPTIONS)
