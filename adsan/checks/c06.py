"""C06 - results are independent of call history.
Monitor: every call of a random history over one recorded graph is compared with the same call issued as the first
call on a freshly recorded graph (O-self).  History alphabet: forward evaluation at (point, D, P, kind), reverse sweep
with a seed after the most recent forward evaluation (the Jacobian-row-by-row idiom), the eight drivers, recording and
evaluating a second graph in between, repetition of the previous call."""
import numpy as np
import algopy
from algopy import UTPM, CGraph, Function
from ..core import case_seed
from .. import gen, progs

PID = 'C06'
TOL = 1e-12
RULE = ('for every single-input catalogue program (wrapped as R^n -> R^m) and random compositions: a random history of length '
        '3..10 over {forward(point, kind, D, P), pullback(seed) after the latest forward, gradient, jacobian, hessian, jac_vec, '
        'vec_jac, hess_vec, vec_hess, vec_hess_vec, other-graph, repeat}; plus a finished graph evaluated while the program graph is being recorded; each call result compared (1e-12 x scale) with the same '
        'call as first call on a freshly recorded graph; the idiom "one forward, several pullbacks" is part of every history; '
        'class = (program, call kind, kind of the preceding call); non-trivial = the call is not the first of its history')
ASSUMPTIONS = ['a freshly recorded graph answering the call first is the reference (its correctness is C03/C04/C05 matter)']
DRIVERS = ['gradient', 'jacobian', 'hessian', 'jac_vec', 'vec_jac', 'hess_vec', 'vec_hess', 'vec_hess_vec']
REQUIRED = ['forward', 'pullback', 'pullback:second', 'other-graph-between', 'returned-values-stable', 'evaluated-while-recording-another'] + DRIVERS


def vector_programs():
    out = []
    for prog in progs.cat():
        if len(prog.ins) != 1 or prog.maxD or ({'fancy', 'augmented', 'nonunique'} & prog.tags):
            continue
        shape, dom = prog.ins[0]
        out.append((prog.name, shape, dom, prog.f))
    return out


def wrap(f, shape):
    """R^n -> R^m version of a catalogue program"""
    def g(x):
        y = f(algopy.reshape(x, tuple(shape)) if len(shape) != 1 else x)
        m = int(np.prod(y.shape)) if hasattr(y, 'shape') else 1
        return algopy.reshape(y, (m,))
    return g


def scalarize(g, w):
    return lambda x: algopy.sum(g(x) * w)


def cases(tier, seed):
    out = []
    reps = 1 if tier == 'quick' else 60
    for (name, shape, dom, f) in vector_programs():
        for rep in range(reps):
            out.append({'kind': 'hist', 'seed': case_seed('C06', seed, name, rep), 'params': {'prog': name, 'len': 6 if tier == 'quick' else 10}})
    for (name, shape, dom, f) in vector_programs()[:: (3 if tier == 'quick' else 1)]:
        for rep in range(1 if tier == 'quick' else 4):
            out.append({'kind': 'nested', 'seed': case_seed('C06', seed, 'nested', name, rep), 'params': {'prog': name}})
    for i in range(60 if tier == 'quick' else 40000):
        out.append({'kind': 'hist', 'seed': case_seed('C06', seed, 'comp', i), 'params': {'prog': 'comp', 'len': 6 if tier == 'quick' else 10}})
    for i in range(6 if tier == 'quick' else 60):
        out.append({'kind': 'writes_input', 'seed': case_seed('C06', seed, 'writes_input', i), 'params': {'which': i}})
    return out


def _build(p, rng):
    if p['prog'] == 'comp':
        desc, f = progs.random_program(rng, int(rng.integers(3, 10)), 'vector')
        return 'comp', (3,), 'R', f, 3
    for (name, shape, dom, f) in vector_programs():
        if name == p['prog']:
            return name, shape, dom, wrap(f, shape), int(np.prod(shape))
    raise KeyError(p['prog'])


def _record(g, gs, xrec):
    """two graphs: vector-valued g and scalar-valued gs, recorded at xrec (recorded identically every time)"""
    cgv, _ = progs.record(g, [xrec.copy()])
    cgs, _ = progs.record(gs, [xrec.copy()])
    return cgv, cgs


def _val(r):
    if isinstance(r, UTPM):
        return r.data.copy()
    if isinstance(r, (list, tuple)):
        return [_val(e) for e in r]
    return np.array(r, dtype=float, copy=True) if not np.iscomplexobj(r) else np.array(r, copy=True)


def _close(a, b):
    if isinstance(a, list) != isinstance(b, list):
        return False, 'type'
    if isinstance(a, list):
        for x, y in zip(a, b):
            ok, e = _close(x, y)
            if not ok:
                return ok, e
        return len(a) == len(b), 0.0
    if a.shape != b.shape:
        return False, 'shape %s vs %s' % (a.shape, b.shape)
    if a.size == 0:
        return True, 0.0
    if not (np.all(np.isfinite(b))):
        return True, 0.0            # reference itself is not finite: nothing to compare
    sc = float(np.max(np.abs(b))) + 1e-300          # python floats: a float32 result would round 1e-300 to 0
    e = float(np.max(np.abs(a - b))) / sc
    return e <= TOL, e


def _other_graph(rng):
    """records and uses an unrelated graph; its nodes carry keyword arguments, shapes and indices that differ from those of
    the catalogue programs (anything shared between nodes of different graphs would be disturbed by it)"""
    for k in rng.permutation(4):
        _other_graph_k(rng, int(k))


def _other_graph_k(rng, k):
    cg = CGraph()
    if k == 0:
        z = Function(rng.normal(size=2))
        w = algopy.sum(algopy.tan(0.3 * z) * algopy.exp(z)) + z[0] * z[1]
        shp = (2,)
    elif k == 1:
        z = Function(rng.normal(size=(2, 4)))
        f1 = algopy.fft.fft(z, axis=1); f2 = algopy.fft.ifft(z * z, axis=-2)
        w = algopy.sum(algopy.real(f1) * algopy.imag(f1)) + algopy.sum(algopy.real(f2))
        shp = (2, 4)
    elif k == 2:
        z = Function(rng.normal(size=(3, 2)))
        w = algopy.sum(algopy.sum(z * z, axis=1) * algopy.sum(z, axis=-1)) + algopy.sum(algopy.reshape(z, (2, 3))[1, ::-1])
        shp = (3, 2)
    else:
        z = Function(rng.normal(size=(3, 3)))
        w = algopy.sum(algopy.symvec(z, 'L') * 2.0) + algopy.sum(algopy.tile(z[0], (2, 1))) + algopy.trace(algopy.dot(z, z.T))
        shp = (3, 3)
    cg.trace_off()
    cg.independentFunctionList = [z]; cg.dependentFunctionList = [w]
    cg.gradient(rng.normal(size=shp))
    cg.pushforward([UTPM(rng.normal(size=(3, 2) + shp))])
    cg.pullback([UTPM(rng.normal(size=(3, 2)))])


def _call(cgv, cgs, call, state):
    r = _call_raw(cgv, cgs, call, state)
    state.setdefault('raw', []).append((call[0], r, _val(r)))
    return _val(r)


def _arg(state, role, x):
    """the argument object of a call: a fresh copy, or (histories flagged `same-objects`) one persistent array per role that the
    caller updates in place between the calls, as an optimisation loop does with its iterate"""
    if not state.get('same-objects') or x.ndim != 1:
        return x.copy()
    buf = state.setdefault('buffers', {}).get((role, x.shape))
    if buf is None:
        buf = state['buffers'][(role, x.shape)] = np.empty_like(x)
    buf[...] = x
    return buf


def _call_raw(cgv, cgs, call, state):
    """executes one call; returns the object handed to the user"""
    k = call[0]
    if k == 'forward':
        which, x = call[1], call[2]
        cg = cgv if which == 'v' else cgs
        if len(call) > 3:          # evaluation in another number type (integer grid points, single precision data)
            x = x.astype(call[3])
            r = cg.function([UTPM(x.copy()) if x.ndim > 1 else x.copy()])[0]
        else:
            r = cg.function([UTPM(x.copy()) if x.ndim > 1 else _arg(state, 'x', x)])[0]
        state['last'] = which
        return r
    if k == 'pullback':
        _, which, s = call
        cg = cgv if which == 'v' else cgs
        cg.pullback([UTPM(s.copy())])
        return cg.independentFunctionList[0].xbar
    if k == 'gradient':
        return cgs.gradient(_arg(state, 'x', call[1]))
    if k == 'hessian':
        return cgs.hessian(_arg(state, 'x', call[1]))
    if k == 'hess_vec':
        return cgs.hess_vec(_arg(state, 'x', call[1]), _arg(state, 'v', call[2]))
    if k == 'jacobian':
        x = call[1]
        return cgv.jacobian(UTPM(x.copy()) if x.ndim > 1 else _arg(state, 'x', x))
    if k == 'jac_vec':
        return cgv.jac_vec(_arg(state, 'x', call[1]), _arg(state, 'v', call[2]))
    if k == 'vec_jac':
        return cgv.vec_jac(_arg(state, 'w', call[1]), _arg(state, 'x', call[2]))
    if k == 'vec_jac_s':          # the same driver on the scalar-valued graph (the one gradient / hessian / hess_vec use)
        return cgs.vec_jac(_arg(state, 'w1', call[1]), _arg(state, 'x', call[2]))
    if k == 'jac_vec_s':
        return cgs.jac_vec(_arg(state, 'x', call[1]), _arg(state, 'v', call[2]))
    if k == 'vec_hess':
        return cgv.vec_hess(_arg(state, 'w', call[1]), _arg(state, 'x', call[2]))
    if k == 'vec_hess_vec':
        return cgv.vec_hess_vec(_arg(state, 'w', call[1]), _arg(state, 'x', call[2]), _arg(state, 'v', call[3]))
    raise KeyError(k)


def _finished_graph(rng):
    cg = CGraph()
    z = Function(rng.normal(size=2))
    w = algopy.sum(algopy.sin(0.3 * z) * algopy.exp(z)) + z[0] * z[1]
    cg.trace_off()
    cg.independentFunctionList = [z]; cg.dependentFunctionList = [w]
    return cg


def _use(H, how, rng):
    """one use of a finished graph H"""
    if how == 0:
        return H.gradient(rng.normal(size=2))
    if how == 1:
        return H.function([rng.normal(size=2)])
    if how == 2:
        H.pushforward([UTPM(rng.normal(size=(3, 2, 2)))]); H.pullback([UTPM(rng.normal(size=(3, 2)))]); return None
    if how == 3:
        return H.jacobian(rng.normal(size=2))
    return H.hess_vec(rng.normal(size=2), rng.normal(size=2))


def _nested(ctx, p, rng):
    """a finished graph H is evaluated while the graph G of the program is being recorded (its value used as a constant, a
    logging call, ...): G must answer every call exactly like a G recorded without the interruption, and H must answer like
    an H used outside any recording"""
    name, shape, dom, g, n = _build(p, rng)
    bs = gen.base_sampler(dom)
    xrec = bs(rng, tuple(shape)).reshape(n)
    try:
        ref_cg, _ = progs.record(lambda x: g(x * 1.0), [xrec.copy()])
        xnew = bs(rng, tuple(shape)).reshape(n)
        want_f = _val(ref_cg.function([xnew.copy()])[0])
        xc = gen.series_data(rng, 2, 2, tuple(shape), dom, 'random', False, 0.3).reshape(2, 2, n)
        want_u = _val(ref_cg.function([UTPM(xc.copy())])[0])
        want_j = _val(ref_cg.jacobian(xnew.copy()))
    except Exception:
        ctx.skip('unsupported-call:nested:' + name); return
    how = int(rng.integers(5)); where = int(rng.integers(3))
    H = _finished_graph(rng)
    st = rng.bit_generator.state
    want_h = _use(H, how, rng)
    rng.bit_generator.state = st
    try:
        cg = CGraph()
        x = Function(xrec.copy())
        if where == 0:
            got_h = _use(H, how, rng)
        x1 = x * 1.0
        if where == 1:
            got_h = _use(H, how, rng)
        y = g(x1)
        if where == 2:
            got_h = _use(H, how, rng)
            y = y * 1.0
        cg.trace_off()
        cg.independentFunctionList = [x]; cg.dependentFunctionList = [y]
        got_f = _val(cg.function([xnew.copy()])[0])
        got_u = _val(cg.function([UTPM(xc.copy())])[0])
        got_j = _val(cg.jacobian(xnew.copy()))
    except Exception as e:
        ctx.violation('evaluated-while-recording-another:raises', {'program': name, 'use': how, 'where': where, 'error': repr(e)[:200]}); return
    for tag, a, b in (('function', got_f, want_f), ('function-utpm', got_u, want_u), ('jacobian', got_j, want_j)):
        ok, e = _close(a, b)
        if not ok:
            ctx.violation('evaluated-while-recording-another:recorded-graph:%s' % tag, {'program': name, 'use_of_other_graph': how, 'where': where, 'err': e}); return
    if want_h is not None:
        ok, e = _close(_val(got_h), _val(want_h))
        if not ok:
            ctx.violation('evaluated-while-recording-another:finished-graph', {'program': name, 'use_of_other_graph': how, 'where': where, 'err': e}); return
    ctx.ok('evaluated-while-recording-another', ('nested', name, how, where))


def _writes_input(ctx, p, rng):
    """a program that assigns into its own argument (x[0] = x[1] * x[2], x[1:3] = sin(x[2:4])): ONE forward evaluation, then the Jacobian
    row by row - one reverse sweep per row, in any order, some rows twice - each row must be the analytic one and the value the graph
    holds for the argument must be the same before and after every sweep"""
    from algopy import CGraph, Function
    n = 4
    D, P = [(1, 1), (2, 1), (1, 2), (2, 2)][p['which'] % 4]
    form = p['which'] % 2
    cg = CGraph()
    x = Function(np.round(rng.normal(size=n), 2) + 0.5)
    if form == 0:
        x[0] = x[1] * x[2]
        jac = lambda a: np.array([[0, 2 * a[1] * a[2] ** 2, 2 * a[2] * a[1] ** 2, 0], [0, 2 * a[1], 0, 0], [0, 0, 2 * a[2], 0], [0, 0, 0, 2 * a[3]]])
    else:
        x[1:3] = algopy.sin(x[2:4])
        jac = lambda a: np.array([[2 * a[0], 0, 0, 0], [0, 0, 2 * np.sin(a[2]) * np.cos(a[2]), 0], [0, 0, 0, 2 * np.sin(a[3]) * np.cos(a[3])], [0, 0, 0, 2 * a[3]]])
    y = x * x
    cg.trace_off(); cg.independentFunctionList = [x]; cg.dependentFunctionList = [y]
    for rnd in range(2):
        a = np.round(rng.normal(size=n), 2) + 0.25
        X = np.zeros((D, P, n)); X[0] = a
        try:
            cg.pushforward([UTPM(X.copy())])
        except Exception as e:
            ctx.violation('writes-input:forward-raises', {'error': repr(e)[:160]}); return
        held = np.array(x.x.data, copy=True)
        J = jac(a)
        rows = list(rng.permutation(n)) + [int(rng.integers(n))]
        for k, m in enumerate(rows):
            ybar = np.zeros((D, P, n)); ybar[0, :, m] = 1.0
            try:
                cg.pullback([UTPM(ybar)])
            except Exception as e:
                ctx.violation('writes-input:sweep-raises', {'sweep': k, 'error': repr(e)[:160]}); return
            got = np.array(x.xbar.data[0], copy=True)
            if not np.allclose(got, np.broadcast_to(J[m], got.shape), rtol=1e-12, atol=1e-12):
                ctx.violation('writes-input:row-of-jacobian:%s' % ('first-sweep' if k == 0 else 'later-sweep'),
                              {'form': ['x[0] = x[1]*x[2]', 'x[1:3] = sin(x[2:4])'][form], 'sweep': k, 'row': int(m), 'got': got[0].tolist(), 'want': J[m].tolist()}); return
            if not np.array_equal(x.x.data, held):
                ctx.violation('writes-input:value-held-by-graph-changed-by-sweep', {'sweep': k, 'row': int(m)}); return
        ctx.ok('writes-input', ('writes_input', form, D, P, rnd))


def run_case(ctx, case):
    rng = gen.rng_of(case)
    p = case['params']
    if case['kind'] == 'nested':
        return _nested(ctx, p, rng)
    if case['kind'] == 'writes_input':
        from .. import monitors
        monitors.PROGRAM_WRITES_INPUT[0] = True
        try:
            return _writes_input(ctx, p, rng)
        finally:
            monitors.PROGRAM_WRITES_INPUT[0] = False
    name, shape, dom, g, n = _build(p, rng)
    bs = gen.base_sampler(dom)

    def point():
        return bs(rng, tuple(shape)).reshape(n)

    def curve(D, P):
        return gen.series_data(rng, D, P, tuple(shape), dom, 'random', False, 0.3).reshape(D, P, n)
    xrec = point()
    try:
        m = int(np.prod(np.shape(g(xrec.copy()))))
    except Exception:
        ctx.skip('forward-unsupported:' + name); return
    w = np.round(rng.uniform(0.5, 1.5, size=m), 2)
    gs = scalarize(g, w)
    try:
        cgv, cgs = _record(g, gs, xrec)
    except Exception:
        ctx.skip('not-traceable:' + name); return
    # ---- generate the history
    hist = []
    fw = None          # (which, xdata) of the latest forward evaluation, if a pullback may follow
    L = p['len']
    # the documented idiom first: one forward, several pullbacks
    D, P = [(1, 1), (2, 2), (3, 1)][int(rng.integers(3))]
    x = curve(D, P)
    hist.append(('forward', 'v', x)); fw = ('v', x)
    for _ in range(2):
        hist.append(('pullback', 'v', rng.normal(size=(D, P, m))))
    hist.append(('other',))                # every history records and uses unrelated graphs at least once, followed by further calls
    L = max(L, 6)
    while len(hist) < L:
        r = rng.random()
        if r < 0.12 and fw is not None:
            which, x = fw
            sd = (x.shape[0], x.shape[1], m) if which == 'v' else (x.shape[0], x.shape[1])
            hist.append(('pullback', which, rng.normal(size=sd)))
        elif r < 0.3:
            which = 'v' if rng.random() < 0.5 else 's'
            if rng.random() < 0.3:
                x = point(); hist.append(('forward', which, x)); fw = None        # ndarray evaluation: no sweep afterwards
            else:
                D, P = [(1, 1), (2, 2), (3, 1), (2, 3)][int(rng.integers(4))]
                x = curve(D, P); hist.append(('forward', which, x)); fw = (which, x)
        elif r < 0.36:
            # an evaluation in another number type, directly followed by a driver: the driver's answer is the float64 one
            dt = ['int64', 'int32', 'float32'][int(rng.integers(3))]
            if rng.random() < 0.5:
                x = point()
            else:
                x = curve(*[(1, 1), (2, 2)][int(rng.integers(2))])
            if dt != 'float32':
                x = np.round(2 * x)
            hist.append(('forward', 'v' if rng.random() < 0.6 else 's', x, dt)); fw = None
            d = ['jac_vec', 'jac_vec_s', 'gradient', 'jacobian', 'vec_jac', 'hess_vec'][int(rng.integers(6))]
            if d in ('jac_vec', 'jac_vec_s', 'hess_vec'):
                hist.append((d, point(), rng.normal(size=n)))
            elif d == 'vec_jac':
                hist.append((d, rng.normal(size=m), point()))
            else:
                hist.append((d, point()))
        elif r < 0.4:
            hist.append(('other',))
        elif r < 0.5 and hist:
            hist.append(('repeat',))
        else:
            d = DRIVERS[int(rng.integers(len(DRIVERS)))]
            if d in ('gradient', 'hessian'):
                hist.append((d, point()))
            elif d in ('hess_vec', 'jac_vec'):
                hist.append((d, point(), rng.normal(size=n)))
            elif d == 'jacobian':
                hist.append((d, point() if rng.random() < .6 else curve(2, 2)))
            elif d in ('vec_jac', 'vec_hess'):
                hist.append((d, rng.normal(size=m), point()))
            else:
                if m != n:
                    continue            # vec_hess_vec insists on w.shape == x.shape
                hist.append((d, rng.normal(size=m), point(), rng.normal(size=n)))
            fw = None
    # ---- run it, comparing every call with the same call on a fresh graph
    state = {'same-objects': bool(rng.random() < 0.5)}
    if state['same-objects']:
        # an optimisation loop: every driver once, in random order, always with the same argument objects updated in place
        seq = DRIVERS + ['vec_jac_s', 'jac_vec_s', 'gradient']
        for d in [seq[i] for i in rng.permutation(len(seq))]:
            if d == 'vec_jac_s':
                hist.append((d, rng.normal(size=1), point()))
            elif d == 'jac_vec_s':
                hist.append((d, point(), rng.normal(size=n)))
            elif d in ('gradient', 'hessian'):
                hist.append((d, point()))
            elif d in ('hess_vec', 'jac_vec'):
                hist.append((d, point(), rng.normal(size=n)))
            elif d == 'jacobian':
                hist.append((d, point()))
            elif d in ('vec_jac', 'vec_hess'):
                hist.append((d, rng.normal(size=m), point()))
            elif m == n:
                hist.append((d, rng.normal(size=m), point(), rng.normal(size=n)))
    prev_kind = 'start'
    last_real = None
    last_fw = None
    npb = 0
    for i, call in enumerate(hist):
        if call[0] == 'other':
            _other_graph(rng); prev_kind = 'other'; continue
        if call[0] == 'repeat':
            if last_real is None or last_real[0] == 'pullback':
                continue
            call = last_real
        kind = call[0]
        try:
            got = _call(cgv, cgs, call, state)
        except Exception as e:
            got = e
        # reference: fresh graphs, this call first (a pullback needs its forward evaluation first)
        try:
            fv, fs = _record(g, gs, xrec)
            if kind == 'pullback':
                _call(fv, fs, last_fw, {})
            want = _call(fv, fs, call, {})
        except Exception as e:
            want = e
        if kind == 'forward':
            last_fw = call; npb = 0
        if isinstance(want, Exception):
            ctx.skip('unsupported-call:%s:%s' % (kind, name if name != 'comp' else 'comp')); prev_kind = kind; last_real = call
            if kind != 'pullback' and kind != 'forward':
                last_fw = last_fw
            continue
        mech = '%s:after-%s:%s' % (kind, prev_kind, name)
        if isinstance(got, Exception):
            ctx.violation(mech + ':raises', {'program': name, 'call': kind, 'position': i, 'history': [c[0] for c in hist[:i + 1]], 'error': str(got)[:200]}); return
        ok, e = _close(got, want)
        if not ok:
            ctx.violation(mech + ':value', {'program': name, 'call': kind, 'position': i, 'history': [c[0] for c in hist[:i + 1]], 'err': e}); return
        label = kind
        if kind == 'pullback':
            npb += 1
            if npb >= 2:
                ctx.ok('pullback:second', ('pb2', name, prev_kind))
        if prev_kind == 'other':
            ctx.ok('other-graph-between', ('other', name, kind))
        ctx.ok(label, (name, kind, prev_kind), noise=e if isinstance(e, float) else None,
               sample={'program': name, 'history': [c[0] for c in hist], 'checked_call': i} if (i == len(hist) - 1 and rng.random() < 0.05) else None)
        prev_kind = kind; last_real = call
    # values handed to the user earlier must not have changed retroactively
    for j, (k_, raw, snap) in enumerate(state.get('raw', [])):
        now = _val(raw)
        ok, e = _close(now, snap)
        same_shape = True
        if not ok:
            ctx.violation('returned-value-changed-later:%s' % k_, {'program': name, 'call': k_, 'position': j, 'history': [c[0] for c in hist]}); return
    ctx.ok('returned-values-stable', ('stable', name))
