"""C03 - reverse mode agrees with forward mode at every Taylor order.
Monitor: program-level duality <xbar, v> = <ybar, F'(x) v> mod t^D with F'(x) v obtained from forward
propagation alone (O-fwd), on single-operation programs of the whole differentiable API and on random compositions."""
import numpy as np
import algopy
from algopy import UTPM
from ..core import case_seed
from .. import gen, progs

PID = 'C03'
PEAK = 1e6          # compositions whose intermediates exceed this are not compared (cancellation in the summed output)
TAU = 1e-7
RULE = ('every program of the catalogue (single operations with all rank/axis/operand-kind variants, buffers, views, '
        'factorization outputs) x (D,P) x recording kind {ndarray, UTPM(1,1), UTPM(2,2), the evaluation polynomial itself followed by a sweep without re-evaluation} x recording point {= or != evaluation '
        'point}; every such program again with its inputs also consumed by another operation recorded before / after it (adjoint accumulation); random straight-line compositions of length 3..12 (intermediate values <= 1e6); graphs with two dependents, one computed from the other; seeds ybar and directions v random, non-symmetric, '
        'non-zero at all orders; check: sum_elements (xbar*v)_d == sum_elements (ybar*Jv)_d for every d<D and direction, '
        'tolerance 1e-7 x pairing of absolute values; a class = (program, D, P, recording kind); non-trivial = the pairing '
        'majorant is non-zero at the highest order')
ASSUMPTIONS = ['forward propagation up to order 2D-1 is correct (C01/C02/C07/C08 validate it independently)',
               'an exception whose cause is a missing pb_<name> or NotImplementedError is the documented refusal, not a violation']


def DPs(tier):
    return [(1, 1), (2, 2), (4, 1)] if tier == 'quick' else [(1, 1), (2, 1), (2, 3), (3, 2), (4, 1), (6, 2)]


def cases(tier, seed):
    out = []
    reps = 1 if tier == 'quick' else 60
    for prog in progs.cat():
        if {'fancy', 'augmented', 'nonunique'} & prog.tags:
            continue        # advanced (list) indexing is outside the property's program class (basic indexing and views)
        for (D, P) in DPs(tier):
            if prog.maxD and D > prog.maxD:
                continue
            for rep in range(reps):
                s = case_seed('C03', seed, prog.name, D, P, rep)
                r = np.random.default_rng(s)
                out.append({'kind': 'single', 'seed': s, 'params': {'prog': prog.name, 'D': D, 'P': P,
                                                                     'rec': ['ndarray', 'utpm11', 'utpmDP', 'direct'][int(r.integers(4))],
                                                                     'rec_at_eval': bool(r.integers(2))}})
                # the same operation with its inputs also used by another operation recorded after / before it:
                # every pullback has to accumulate into adjoints that already hold contributions
                out.append({'kind': 'single', 'seed': s + 1, 'params': {'prog': prog.name, 'D': D, 'P': P,
                                                                         'rec': ['ndarray', 'utpm11', 'utpmDP', 'direct'][int(r.integers(4))],
                                                                         'rec_at_eval': bool(r.integers(2)), 'fanout': 1 + int(r.integers(2))}})
    ncomp = 300 if tier == 'quick' else 150000
    for i in range(ncomp):
        s = case_seed('C03', seed, 'comp', i)
        r = np.random.default_rng(s)
        D, P = DPs(tier)[int(r.integers(len(DPs(tier))))]
        out.append({'kind': 'comp', 'seed': s, 'params': {'len': int(r.integers(3, 13)), 'D': D, 'P': P,
                                                          'rec': ['ndarray', 'utpm11', 'utpmDP', 'direct'][int(r.integers(4))]}})
    for i in range(40 if tier == 'quick' else 6000):
        s = case_seed('C03', seed, 'twodep', i)
        r = np.random.default_rng(s)
        D, P = DPs(tier)[int(r.integers(len(DPs(tier))))]
        out.append({'kind': 'twodep', 'seed': s, 'params': {'len': int(r.integers(2, 8)), 'D': D, 'P': P}})
    return out


def _twodep(ctx, p, rng):
    """two dependents, the second computed from the first: the sweep receives one seed per dependent, and the adjoint of a
    node that is itself a dependent is its seed plus what its consumers send back"""
    D, P = p['D'], p['P']
    desc, f = progs.random_program(rng, p['len'], 'vector')
    x = gen.series_data(rng, D, P, (3,), 'R', 'random', False, 0.4)
    if f.peak(x) > PEAK:
        ctx.skip('out_of_domain:ill-conditioned (intermediate coefficients > 1e6 cancel in the output)'); return
    how = int(rng.integers(6))

    def f2(y1, xx):
        # 3, 4, 5: the second dependent is a VIEW of the first (an overlapping slice, the reversed vector, the value itself): the
        # seeds of the two dependents meet in the same adjoint memory
        if how == 3:
            return y1[1:]
        if how == 4:
            return y1[::-1]
        if how == 5:
            return y1
        if how == 0:
            return algopy.sin(y1) * xx
        if how == 1:
            return algopy.sum(y1 * y1) + xx[0]
        return y1[::-1] * 2.0 - algopy.exp(0.2 * xx)
    v = rng.normal(size=x.shape)
    try:
        Jv1, y1d = progs.forward_Jv(f, [x], [v])
        Jv2, y2d = progs.forward_Jv(lambda z: f2(f(z), z), [x], [v])
    except Exception:
        ctx.skip('forward-unsupported:twodep'); return
    if not (np.all(np.isfinite(Jv1)) and np.all(np.isfinite(Jv2))) or max(np.max(np.abs(Jv1)), np.max(np.abs(Jv2)), np.max(np.abs(y1d)), np.max(np.abs(y2d))) > 1e5:
        ctx.skip('out_of_domain:ill-conditioned (|y| or |Jv| > 1e5)'); return
    try:
        cg = algopy.CGraph()
        fx = algopy.Function(UTPM(x.copy()))
        y1 = f(fx); y2 = f2(y1, fx)
        cg.trace_off()
        swapped = bool(rng.random() < 0.5)
        cg.independentFunctionList = [fx]; cg.dependentFunctionList = [y2, y1] if swapped else [y1, y2]
        order = [False, True] if swapped else [True, False]          # which position holds y1 (y2 may be the very same node)
    except Exception:
        ctx.skip('not-traceable:twodep'); return
    yb1 = rng.normal(size=y1.x.data.shape); yb2 = rng.normal(size=y2.x.data.shape)
    try:
        cg.pullback([UTPM((yb1 if o else yb2).copy()) for o in order])
    except Exception as e:
        if _refusal(e):
            ctx.skip('no-pullback:twodep'); return
        ctx.violation('two-dependents:raises', {'D': D, 'P': P, 'steps': [list(map(str, s_)) for s_ in desc['steps']], 'error': (str(e.__context__ or e) or repr(e))[-300:]}); return
    xb = fx.xbar
    lhs = progs.pairing(xb.data, v)
    rhs = progs.pairing(yb1, Jv1) + progs.pairing(yb2, Jv2)
    sc = progs.pairing(np.abs(xb.data), np.abs(v)) + progs.pairing(np.abs(yb1), np.abs(Jv1)) + progs.pairing(np.abs(yb2), np.abs(Jv2))
    sc = np.maximum.accumulate(np.abs(sc), axis=0) + 1e-6 * float(np.sum(np.abs(v))) + 1e-300
    worst = float(np.max(np.abs(lhs - rhs) / sc))
    if not worst <= TAU:
        ctx.violation('two-dependents:value', {'D': D, 'P': P, 'second_dependent': how, 'listed_first': 'y1' if order[0] else 'y2', 'err_over_majorant': worst,
                                              'steps': [list(map(str, s_)) for s_ in desc['steps']]}); return
    ctx.ok('two-dependents', ('twodep', how, order[0], D, P), noise=worst)


def required():
    # 'refused': the tracer has no method / no pb_ for it and raises (the documented refusal), counted as skips
    return ['single:' + p.name for p in progs.cat() if not ({'nopb', 'refused', 'fancy', 'augmented', 'nonunique'} & p.tags) and p.name not in ('dot:TM',)] + ['comp', 'two-dependents']


NOT_TRACEABLE_OK = True


def _refusal(exc):
    """documented refusal: missing pb_<name> / NotImplementedError somewhere in the cause chain or message"""
    seen = 0
    e = exc
    while e is not None and seen < 6:
        if isinstance(e, NotImplementedError):
            return True
        msg = str(e)
        if isinstance(e, AttributeError) and 'pb_' in msg:
            return True
        if 'NotImplementedError' in msg or ("has no attribute 'pb_" in msg):
            return True
        e = e.__cause__ or e.__context__
        seen += 1
    return False


def duality(ctx, mech, label, f, xs, rng, rec_kind, rec_bases, cls, sample=None):
    """the deciding comparison; returns True when a verdict (ok/violation) was recorded"""
    D, P = xs[0].shape[:2]
    vs = [rng.normal(size=x.shape) for x in xs]
    try:
        Jv, ydir = progs.forward_Jv(f, xs, vs)
    except Exception as e:
        ctx.skip('forward-unsupported:' + label); return False
    if not (np.all(np.isfinite(Jv)) and np.all(np.isfinite(ydir))):
        ctx.skip('out_of_domain:nonfinite-forward'); return False
    if max(np.max(np.abs(Jv)), np.max(np.abs(ydir))) > 1e5:
        ctx.skip('out_of_domain:ill-conditioned (|y| or |Jv| > 1e5)'); return False
    direct = rec_kind == 'direct'          # record with the evaluation polynomial itself and sweep without re-evaluation
    try:
        lay = lambda x: UTPM(gen.relayout(x, gen.LAYOUTS[int(rng.integers(len(gen.LAYOUTS)))]))          # independents in any memory layout
        cg, _ = progs.record(f, [lay(x) for x in xs] if direct else [progs.rec_value(rec_kind, b, rng) for b in rec_bases])
    except Exception as e:
        ctx.skip('not-traceable:' + label); return False
    try:
        if not direct:
            cg.pushforward([lay(x) for x in xs])
        y = cg.dependentFunctionList[0].x
    except Exception as e:
        ctx.skip('replay-raises (C05 matter):' + label); return False
    if not isinstance(y, UTPM) or y.data.shape != ydir.shape or not np.allclose(y.data, ydir, rtol=1e-9, atol=1e-9 * (1 + np.max(np.abs(ydir)))):
        ctx.skip('replay-differs (C05 matter):' + label); return False
    ybar = rng.normal(size=y.data.shape)
    sk = int(rng.integers(5))
    if sk == 0 and ybar.size >= 2:
        # a contrast: entries +-1, +-0.5 whose total is exactly 0.0 (an adjoint that sums to zero is not a zero adjoint)
        f_ = np.resize(np.array([1.0, -1.0, 0.5, -0.5]), ybar.size)
        f_[-1] -= f_.sum()
        ybar = rng.permutation(f_).reshape(ybar.shape)
    elif sk == 1:
        ybar = np.zeros_like(ybar); ybar.reshape(-1)[int(rng.integers(ybar.size))] = 1.0 if ybar.size else 0       # a unit seed
    try:
        cg.pullback([UTPM(ybar.copy())])
    except Exception as e:
        if _refusal(e):
            ctx.skip('no-pullback:' + label); return False
        ctx.violation(mech + ':raises', {'program': label, 'D': D, 'P': P, 'rec': rec_kind, 'error': (str(e.__context__ or e) or repr(e))[-300:]})
        return True
    lhs = 0; sc = 0
    for fx, v, x in zip(cg.independentFunctionList, vs, xs):
        xb = fx.xbar
        if not isinstance(xb, UTPM) or xb.data.shape != x.shape:
            ctx.violation(mech + ':xbar-shape', {'program': label, 'got': getattr(getattr(xb, 'data', None), 'shape', None), 'want': x.shape}); return True
        lhs = lhs + progs.pairing(xb.data, v); sc = sc + progs.pairing(np.abs(xb.data), np.abs(v))
    rhs = progs.pairing(ybar, Jv); sc = sc + progs.pairing(np.abs(ybar), np.abs(Jv))
    # floor: derivatives that vanish identically (x/x, sign, clip outside) leave only rounding noise on both sides
    floor = 1e-6 * float(np.sum(np.abs(ybar))) * float(sum(np.sum(np.abs(v)) for v in vs)) / max(1, ybar[0, 0].size)
    sc = np.maximum.accumulate(np.abs(sc), axis=0) + floor + 1e-300
    err = np.abs(lhs - rhs) / sc
    worst = float(np.max(err))
    if not worst <= TAU:
        d_bad = int(np.argmax(np.max(err, axis=1)))
        ctx.violation(mech + (':value:order0' if d_bad == 0 else ':value:order>=1'),
                      {'program': label, 'D': D, 'P': P, 'rec': rec_kind, 'first_bad_order': d_bad, 'err_over_majorant': worst,
                       'lhs': np.real(lhs[d_bad]).tolist(), 'rhs': np.real(rhs[d_bad]).tolist()})
        return True
    # the same sweeps once more while the caller has asked NumPy to raise on division by zero, invalid operations and overflow
    # (numpy.errstate / numpy.seterr, a common debugging setting): all values of this case are finite and moderate, so completing
    # is part of "operations for which the library provides a pullback must complete"
    if all(np.all(np.isfinite(fx.xbar.data)) for fx in cg.independentFunctionList):
        try:
            with np.errstate(divide='raise', invalid='raise', over='raise', under='ignore'):
                cg.pushforward([lay(x) for x in xs])
                cg.pullback([UTPM(ybar.copy())])
        except Exception as e:
            chain = []; e_ = e
            while e_ is not None and len(chain) < 6:
                chain.append(e_); e_ = e_.__cause__ or e_.__context__
            if any(isinstance(c, FloatingPointError) for c in chain) or ' encountered in ' in str(e):
                ctx.violation(mech + ':floating-point-event-when-caller-asked-numpy-to-raise', {'program': label, 'D': D, 'P': P, 'rec': rec_kind,
                                                                                                  'error': (str(chain[-1]) or repr(e))[-200:]})
                return True
        ctx.ok('completes-under-errstate-raise', ('fpe', label, D))
    ctx.ok(mech, cls, noise=worst, sample=sample)
    return True


def run_case(ctx, case):
    p = case['params']
    rng = gen.rng_of(case)
    D, P = p['D'], p['P']
    if case['kind'] == 'single':
        prog = progs.by_name(p['prog'])
        xs = prog.make_inputs(rng, D, P)
        if not all(prog.in_domain([x[0, pp] for x in xs]) for pp in range(P)):
            ctx.skip('out_of_domain:regularity-condition'); return
        bases = [x[0, 0] for x in xs] if p['rec_at_eval'] else prog.base_inputs(rng)
        f = prog.f
        fo = p.get('fanout', 0)
        if fo:
            try:
                yshape = np.shape(prog.f(*[np.array(x[0, 0], dtype=float) for x in xs]))
            except Exception:
                ctx.skip('forward-unsupported:' + prog.name); return
            W = np.round(rng.uniform(0.5, 1.5, size=yshape), 2)
            Us = [np.round(rng.uniform(0.5, 1.5, size=x.shape[2:]), 2) for x in xs]

            def f(*args):
                if fo == 2:
                    e = sum(algopy.sum(a * U_) for a, U_ in zip(args, Us))
                s_ = algopy.sum(prog.f(*args) * W)
                if fo == 1:
                    e = sum(algopy.sum(a * U_) for a, U_ in zip(args, Us))
                return s_ + e
            mech = 'single:%s:%s' % (prog.name, 'inputs-also-used-later' if fo == 1 else 'inputs-also-used-earlier')
            duality(ctx, mech, prog.name, f, xs, rng, p['rec'], bases, (prog.name, D, P, p['rec'], p['rec_at_eval'], fo))
            return
        duality(ctx, 'single:' + prog.name, prog.name, prog.f, xs, rng, p['rec'], bases, (prog.name, D, P, p['rec'], p['rec_at_eval']),
                sample={'program': prog.name, 'D': D, 'P': P, 'rec': p['rec']} if rng.random() < 0.02 else None)
    elif case['kind'] == 'twodep':
        return _twodep(ctx, p, rng)
    else:
        desc, f = progs.random_program(rng, p['len'], 'vector')
        x = gen.series_data(rng, D, P, (3,), 'R', 'random', False, 0.4)
        base = gen.base_sampler('R')(rng, (3,))
        if f.peak(x) > PEAK:
            ctx.skip('out_of_domain:ill-conditioned (intermediate coefficients > 1e6 cancel in the output)'); return
        ops = sorted({st[0] + ':' + str(st[2] if st[0] in ('idx', 'red', 'buf', 'fact') else (st[3] if st[0] in ('dot', 'bin') else (st[2] if st[0] == 'lin' else ''))) for st in desc['steps']})
        duality(ctx, 'comp', 'comp', f, [x], rng, p['rec'], [base], ('comp', tuple(ops), D, P),
                sample={'program': [list(map(str, s)) for s in desc['steps']], 'D': D, 'P': P} if rng.random() < 0.01 else None)
        if 'comp' in ctx.violations and 'steps' not in ctx.violations['comp']:
            ctx.violations['comp']['steps'] = [list(map(str, s)) for s in desc['steps']]


def finish(ctx):
    from .. import core
    return core.finish(ctx, required(), RULE, assumptions=ASSUMPTIONS)
