"""C12 - low-order coefficients do not depend on the truncation degree.
Monitor: shadow re-execution on truncated copies (O-self): for every depth-0 public call with D > 1 the probe re-runs the
operation on inputs truncated to D' coefficients and compares the first D' output coefficients; forward runs and reverse
sweeps of recorded programs are truncated likewise; D' = 1 must reproduce the plain NumPy value."""
import numpy as np
import algopy
from algopy import UTPM
from ..core import case_seed
from .. import gen, probe, monitors, pool, progs

PID = 'C12'
TOL = 1e-11
RULE = ('(a) TruncationMonitor on every depth-0 public UTPM call with D>1 while the workloads of C01 C02 C07 C08 C09 C13 run '
        '(quick: D\' in {1, D-1, one more}; thorough: every D\'<D); (b) every catalogue program and random compositions with D in 2..6: '
        'forward result and xbar computed from inputs/seed truncated to D\' against the first D\' coefficients of the full run, and the '
        'D\'=1 forward result against the program run on plain ndarrays; eigen/singular vectors only when the eigenvalues of A_0 are '
        'distinct; class = (call or program, D, shapes); non-trivial = some input coefficient of order >= D\' is non-zero')
ASSUMPTIONS = ['the same operation on the truncated polynomial is the reference', 'eig is excluded (supports D<=2 only by its own assertion)']
REQUIRED = ['truncation-shadow', 'program:forward', 'program:reverse', 'program:D1-equals-numpy', 'hostile:large-high-coefficients', 'pattern', 'kink', 'highD', 'late-complex', 'extract', 'compound', 'ties']

_mon = None


def setup(ctx, tier):
    global _mon
    _mon = monitors.TruncationMonitor(ctx, all_orders=(tier == 'thorough'))
    probe.install([_mon])


def teardown(ctx):
    probe.S.monitors = ()
    n = 0
    for k in [k for k in ctx.ops if k.startswith('truncation:')]:
        v = ctx.ops.pop(k); n += v
        ctx.extra.setdefault('shadowed_calls_by_name', {})[k.split(':', 1)[1]] = v
    ctx.ops['truncation-shadow'] = n


def cases(tier, seed):
    out = pool.pool_cases(tier, seed, ['c01', 'c02', 'c07', 'c08', 'c13', 'c09'], 120 if tier == 'quick' else 3000)
    if tier == 'thorough':
        out.insert(0, pool.ambient_case(PID))
    if tier == 'thorough':
        out.insert(0, pool.ambient_docs_case(PID))
    for prog in progs.cat():
        if {'fancy', 'augmented', 'nonunique'} & prog.tags:
            continue
        for rep in range(1 if tier == 'quick' else 3):
            out.append({'kind': 'program', 'seed': case_seed('C12', seed, prog.name, rep), 'params': {'prog': prog.name, 'P': 1 + rep % 2, 'D': [3, 2, 5][rep % 3]}})
    for i in range(80 if tier == 'quick' else 20000):
        out.append({'kind': 'program', 'seed': case_seed('C12', seed, 'comp', i), 'params': {'prog': 'comp', 'P': 1 + i % 2, 'D': 2 + i % 4}})
    # higher coefficients 1e9 times larger than the base point (a steep curve): decisions taken from the base point (pivots,
    # ranks, repeated eigenvalues) must not look at them
    for prog in progs.cat():
        if ({'fact', 'linalg'} & prog.tags) and not ({'fancy', 'nonunique', 'scale'} & prog.tags):
            for rep in range(1 if tier == 'quick' else 4):
                out.append({'kind': 'program', 'seed': case_seed('C12', seed, prog.name, 'highscale', rep),
                            'params': {'prog': prog.name, 'P': 1 + rep % 2, 'D': [2, 3][rep % 2], 'highscale': 1e9}})
    from .c01 import T as c01_table
    for name in sorted(c01_table().keys()):
        for pat in ('x1_zero', 'last_only', 'zeros_high', 'alternating'):
            for D in ((3, 5) if tier == 'quick' else (2, 3, 4, 5, 7)):
                out.append({'kind': 'pattern', 'seed': case_seed('C12', seed, 'pattern', name, pat, D), 'params': {'fn': name, 'pattern': pat, 'D': D}})
    for i in range(12 if tier == 'quick' else 60):
        out.append({'kind': 'kink', 'seed': case_seed('C12', seed, 'kink', i), 'params': {'D': 3 + i % 3}})
    for i, D in enumerate((33, 40, 64, 96) if tier == 'quick' else (32, 33, 36, 40, 48, 63, 64, 65, 96, 128, 130)):
        for rep in range(4):
            out.append({'kind': 'highD', 'seed': case_seed('C12', seed, 'highD', D, rep), 'params': {'D': D}})
    for D in (3, 4, 5):
        for k in range(1, D):
            out.append({'kind': 'latecomplex', 'seed': case_seed('C12', seed, 'latecomplex', D, k), 'params': {'D': D, 'k': k}})
    for i in range(16 if tier == 'quick' else 160):
        out.append({'kind': 'compound', 'seed': case_seed('C12', seed, 'compound', i), 'params': {'D': 3 + i % 4, 'norm': [0.3, 2.0, 6.0, 10.0][i % 4], 'n': 2 + (i // 4) % 3}})
    for i in range(12 if tier == 'quick' else 200):
        out.append({'kind': 'ties', 'seed': case_seed('C12', seed, 'ties', i), 'params': {'D': 3 + i % 4, 'P': 1 + i % 2}})
    for i in range(12 if tier == 'quick' else 120):
        out.append({'kind': 'extract', 'seed': case_seed('C12', seed, 'extract', i), 'params': {'D': 3 + i % 4, 'N': 1 + i % 3}})
    for i in range(24 if tier == 'quick' else 200):
        out.append({'kind': 'hostile', 'seed': case_seed('C12', seed, 'hostile', i), 'params': {'which': i % 6, 'D': 3 + i % 3}})
    for i in range(24 if tier == 'quick' else 600):
        out.append({'kind': 'nonfinite_tail', 'seed': case_seed('C12', seed, 'nonfinite_tail', i), 'params': {'D': 3 + i % 3, 'P': 1 + i % 2, 'm': 1 + i % 2, 'what': ['inf', 'nan', '-inf'][i % 3]}})
    return out


TAIL_OPS = ['add', 'sub', 'mul', 'truediv', 'rtruediv', 'pow2', 'pow3', 'pow2.5', 'rpow', 'pow_utpm', 'imul', 'itruediv', 'exp', 'log', 'sqrt', 'sin', 'cos', 'tan', 'tanh',
            'square', 'reciprocal', 'erf', 'expit', 'gammaln', 'sqrt*cos', 'dot', 'dot_const', 'outer', 'inv', 'solve', 'solve_const', 'det', 'logdet', 'trace', 'sum',
            'cholesky', 'qr', 'lu', 'eigh', 'svd', 'getitem_mul', 'fft_real']


def _nonfinite_tail(ctx, p, rng):
    """input coefficients of order >= m are inf / nan (an overflowed or undefined higher derivative), those below are ordinary: the
    output coefficients of order < m are what the inputs truncated to m coefficients give - finite, and the same"""
    D, P, m, what = p['D'], p['P'], p['m'], p['what']
    bad = {'inf': np.inf, '-inf': -np.inf, 'nan': np.nan}[what]
    n = 3
    def tail(a, everywhere):
        a = a.copy()
        if everywhere:
            a[m:] = bad
        else:
            a[m:].reshape(D - m, P, -1)[:, :, 0] = bad          # one element only
        return a
    xv = gen.series_data(rng, D, P, (n,), 'pos', 'random', False, 0.3) + 0.5
    yv = gen.series_data(rng, D, P, (n,), 'pos', 'random', False, 0.3) + 0.5
    Am = gen.series_data(rng, D, P, (n, n), 'R', 'random', False, 0.3)
    for pp in range(P):
        Am[0, pp] = gen.sym_with_gaps(rng, n) + 4.0 * np.eye(n)          # symmetric positive definite, distinct eigenvalues
    Am = 0.5 * (Am + np.swapaxes(Am, -1, -2))
    Bm = gen.series_data(rng, D, P, (n, 2), 'R', 'random', False, 0.3)
    C = np.round(rng.normal(size=(n, n)), 2) + 3.0 * np.eye(n)
    import operator
    ops = {
        'add': (lambda x, y, A, B: x + y, 'v'), 'sub': (lambda x, y, A, B: x - y, 'v'), 'mul': (lambda x, y, A, B: x * y, 'v'), 'truediv': (lambda x, y, A, B: y / x, 'v'),
        'rtruediv': (lambda x, y, A, B: 2.5 / x, 'v'), 'pow2': (lambda x, y, A, B: x ** 2, 'v'), 'pow3': (lambda x, y, A, B: x ** 3, 'v'), 'pow2.5': (lambda x, y, A, B: x ** 2.5, 'v'),
        'rpow': (lambda x, y, A, B: 2.0 ** x, 'v'), 'pow_utpm': (lambda x, y, A, B: y ** x, 'v'),
        'imul': (lambda x, y, A, B: operator.imul(y.copy(), x), 'v'), 'itruediv': (lambda x, y, A, B: operator.itruediv(y.copy(), x), 'v'),
        'exp': (lambda x, y, A, B: algopy.exp(x), 'v'), 'log': (lambda x, y, A, B: algopy.log(x), 'v'), 'sqrt': (lambda x, y, A, B: algopy.sqrt(x), 'v'),
        'sin': (lambda x, y, A, B: algopy.sin(x), 'v'), 'cos': (lambda x, y, A, B: algopy.cos(x), 'v'), 'tan': (lambda x, y, A, B: algopy.tan(x * 0.5), 'v'),
        'tanh': (lambda x, y, A, B: algopy.tanh(x), 'v'), 'square': (lambda x, y, A, B: algopy.square(x), 'v'), 'reciprocal': (lambda x, y, A, B: algopy.reciprocal(x), 'v'),
        'erf': (lambda x, y, A, B: algopy.special.erf(x), 'v'), 'expit': (lambda x, y, A, B: algopy.special.expit(x), 'v'), 'gammaln': (lambda x, y, A, B: algopy.special.gammaln(x + 1.0), 'v'),
        'sqrt*cos': (lambda x, y, A, B: algopy.sqrt(x) * algopy.cos(y), 'v'), 'dot': (lambda x, y, A, B: algopy.dot(A, B), 'm'), 'dot_const': (lambda x, y, A, B: algopy.dot(C, A), 'm'),
        'outer': (lambda x, y, A, B: algopy.outer(x, y), 'v'), 'inv': (lambda x, y, A, B: algopy.inv(A), 'm'), 'solve': (lambda x, y, A, B: algopy.solve(A, B), 'm'),
        'solve_const': (lambda x, y, A, B: algopy.solve(C, B), 'm'), 'det': (lambda x, y, A, B: algopy.det(A), 'm'), 'logdet': (lambda x, y, A, B: algopy.logdet(A), 'm'),
        'trace': (lambda x, y, A, B: algopy.trace(A), 'm'), 'sum': (lambda x, y, A, B: algopy.sum(x * y), 'v'), 'cholesky': (lambda x, y, A, B: algopy.cholesky(A), 'm'),
        'qr': (lambda x, y, A, B: algopy.qr(A), 'm'), 'lu': (lambda x, y, A, B: algopy.lu(A), 'm'), 'eigh': (lambda x, y, A, B: algopy.eigh(A), 'm'), 'svd': (lambda x, y, A, B: algopy.svd(A), 'm'),
        'getitem_mul': (lambda x, y, A, B: x[1:] * y[:-1] + A[0, 1:], 'v'), 'fft_real': (lambda x, y, A, B: algopy.real(algopy.fft.fft(x)), 'v')}
    for name in TAIL_OPS:
        f, kind = ops[name]
        everywhere = bool(rng.integers(2))
        full = [UTPM(tail(xv, everywhere)), UTPM(tail(yv, everywhere)), UTPM(tail(Am, everywhere)), UTPM(tail(Bm, everywhere))]
        trunc = [UTPM(xv[:m].copy()), UTPM(yv[:m].copy()), UTPM(Am[:m].copy()), UTPM(Bm[:m].copy())]
        with np.errstate(all='ignore'):
            try:
                want = f(*trunc)
            except Exception:
                ctx.skip('unsupported:nonfinite_tail:' + name); continue
            try:
                got = f(*full)
            except Exception as e:
                ctx.violation('nonfinite-tail:%s:raises' % name, {'op': name, 'D': D, 'P': P, 'first_nonfinite_order': m, 'value': what, 'error': repr(e)[:160]}); continue
        gl = [v for v in (got if isinstance(got, (tuple, list)) else (got,)) if isinstance(v, UTPM)]
        wl = [v for v in (want if isinstance(want, (tuple, list)) else (want,)) if isinstance(v, UTPM)]
        ok = len(gl) == len(wl) and len(gl) > 0
        for g, w in zip(gl, wl):
            ok = ok and g.data.shape[1:] == w.data.shape[1:] and np.all(np.isfinite(w.data)) and bool(
                np.all(np.abs(g.data[:m] - w.data) <= 1e-11 * (np.max(np.abs(w.data), axis=0, keepdims=True) + 1e-300)))
        if not ok:
            ctx.violation('nonfinite-tail:%s:low-orders' % name, {'op': name, 'D': D, 'P': P, 'first_nonfinite_order': m, 'value': what, 'in_every_element': everywhere}); continue
        ctx.ok('nonfinite-tail:' + name, ('nonfinite_tail', name, D, P, m, what, everywhere))


def run_case(ctx, case):
    if case['kind'] == 'pool':
        return pool.run_host(case)
    if case['kind'] in ('ambient', 'ambient-docs'):
        probe.S.suppress = True
        try:
            return pool.run_ambient(ctx, PID) if case['kind'] == 'ambient' else pool.run_ambient_docs(ctx, PID)
        finally:
            probe.S.suppress = False
    rng = gen.rng_of(case)
    if case['kind'] == 'nonfinite_tail':
        probe.S.suppress = True          # (the shadow monitors skip calls with non-finite input: this kind is its own oracle)
        try:
            return _nonfinite_tail(ctx, case['params'], rng)
        finally:
            probe.S.suppress = False
    if case['kind'] == 'hostile':
        return _hostile(ctx, case['params'], rng)
    if case['kind'] == 'highD':
        return _highD(ctx, case['params'], rng)
    if case['kind'] == 'latecomplex':
        return _latecomplex(ctx, case['params'], rng)
    if case['kind'] == 'extract':
        return _extract(ctx, case['params'], rng)
    if case['kind'] == 'compound':
        return _compound(ctx, case['params'], rng)
    if case['kind'] == 'ties':
        return _ties(ctx, case['params'], rng)
    if case['kind'] == 'pattern':
        return _pattern(ctx, case['params'], rng)
    if case['kind'] == 'kink':
        return _kink(ctx, case['params'], rng)
    return _program(ctx, case['params'], rng)


def _pattern(ctx, p, rng):
    """special coefficient patterns (x_1 identically zero, only the last coefficient non-zero, ...) through every elementary
    and special function; the installed TruncationMonitor compares with the truncated runs"""
    from .c01 import T as c01_table
    t = c01_table()[p['fn']]
    before = sum(ctx.violation_count.values())
    for P in (1, 2):
        data = gen.series_data(rng, p['D'], P, (2,), t['dom'], p['pattern'], False)
        for ename, f in sorted(t['entries'].items()):
            if ename in ('npy', 'npint', 'npf'):
                continue
            try:
                f(UTPM(data.copy()))
            except Exception:
                ctx.skip('sut-raises:pattern')
    if sum(ctx.violation_count.values()) == before:
        ctx.ok('pattern', ('pattern', p['fn'], p['pattern'], p['D']))


def _ties(ctx, p, rng):
    """selections decided at the base point - max, argmax, maximum / minimum of two operands, absolute / sign at an exact zero,
    clipping exactly on a bound - when several candidates TIE there and differ in their higher coefficients: whichever candidate is
    taken, the low coefficients of the result do not change when coefficients are appended"""
    D, P = p['D'], p['P']
    n = 5
    a = rng.normal(size=(D, P, n))
    for pp in range(P):
        a[0, pp] = np.round(a[0, pp], 1)
        k = rng.choice(n, size=3, replace=False)
        a[0, pp, k] = np.max(a[0, pp]) + 1.0                 # three entries share the maximal base value
    b = rng.normal(size=(D, P, n)); b[0] = a[0]               # two operands that agree in the base point
    z = rng.normal(size=(D, P, n)); z[0, :, ::2] = 0.0        # exact zeros in the base point
    c = rng.normal(size=(D, P, n)); c[0, :, :2] = 0.5; c[0, :, 2:4] = -0.5
    calls = [('max', lambda d: UTPM.max(UTPM(d[0].copy())), (a,)), ('argmax', lambda d: UTPM.argmax(UTPM(d[0].copy())), (a,)),
             ('maximum', lambda d: algopy.maximum(UTPM(d[0].copy()), UTPM(d[1].copy())), (a, b)), ('minimum', lambda d: algopy.minimum(UTPM(d[0].copy()), UTPM(d[1].copy())), (a, b)),
             ('absolute', lambda d: algopy.absolute(UTPM(d[0].copy())), (z,)), ('sign', lambda d: algopy.sign(UTPM(d[0].copy())), (z,)),
             ('clip', lambda d: algopy.special.botched_clip(-0.5, 0.5, UTPM(d[0].copy())), (c,))]
    probe.S.suppress = True
    try:
        for nm, f, data in calls:
            try:
                full = f(data)
            except Exception:
                ctx.skip('sut-raises:ties:' + nm); continue
            fd = full.data if isinstance(full, UTPM) else np.asarray(full)
            for Dp in range(1, D):
                try:
                    part = f(tuple(x[:Dp] for x in data))
                except Exception:
                    ctx.skip('sut-raises:ties:' + nm); continue
                pd = part.data if isinstance(part, UTPM) else np.asarray(part)
                same = np.array_equal(fd[:Dp], pd, equal_nan=True) if isinstance(full, UTPM) else np.array_equal(fd, pd)
                if not same:
                    ctx.violation('ties:%s' % nm, {'function': nm, 'D': D, 'Dp': Dp, 'P': P}); break
            else:
                ctx.ok('ties', ('ties', nm, D, P))
    finally:
        probe.S.suppress = False


def _compound(ctx, p, rng):
    """module-level functions composed of several polynomial operations (expm and its fixed-order relatives): whatever they
    decide from their argument, the low coefficients are those of the truncated argument - also for base matrices of large norm,
    where the approximation itself is documented to be poor (the property is about consistency, not accuracy)"""
    D, n, nrm = p['D'], p['n'], p['norm']
    a = rng.normal(size=(D, 2, n, n))
    for pp in range(2):
        a[0, pp] *= nrm / np.linalg.norm(a[0, pp], 1)
    import algopy.linalg
    fns = [('expm', algopy.expm)] + [(nm, getattr(algopy.linalg, nm)) for nm in ('expm_higham_2005',) if hasattr(algopy.linalg, nm)]
    probe.S.suppress = True
    try:
        for nm, f in fns:
            try:
                full = f(UTPM(a.copy())).data
            except Exception:
                ctx.skip('sut-raises:compound:' + nm); continue
            if not np.all(np.isfinite(full)):
                ctx.skip('out_of_domain:nonfinite'); continue
            for Dp in range(1, D):
                try:
                    part = f(UTPM(a[:Dp].copy())).data
                except Exception:
                    ctx.skip('sut-raises:compound:' + nm); continue
                s = _scale(part)
                err = np.abs(full[:Dp] - part).reshape(Dp, -1).max(axis=1) / s
                if part.shape != full[:Dp].shape or not np.all(err <= 1e-9):
                    ctx.violation('compound:%s' % nm, {'function': nm, 'D': D, 'Dp': Dp, 'n': n, 'base_norm': nrm, 'err_over_scale': float(np.max(err))}); return
            ctx.ok('compound', ('compound', nm, D, n, nrm))
    finally:
        probe.S.suppress = False


def _extract(ctx, p, rng):
    """what the driver-level extractors read off a result with D coefficients is what they read off the same computation
    truncated to the two coefficients a Jacobian needs"""
    D, N = p['D'], p['N']
    x = rng.normal(size=N)
    d = np.zeros((D, N, N)); d[0] = x; d[1] = np.eye(N)
    d[2:] = rng.normal(size=(D - 2, N, N)) * (0.0 if rng.random() < 0.5 else 1.0)
    f = lambda X: algopy.sin(X) * X[::-1] + algopy.exp(0.3 * X) * algopy.sum(X * X)
    try:
        full = np.asarray(UTPM.extract_jacobian(f(UTPM(d.copy()))))
        short = np.asarray(UTPM.extract_jacobian(f(UTPM(d[:2].copy()))))
        fv = np.asarray(UTPM.extract_jac_vec(f(UTPM(d[:, :1].copy()))))
        sv = np.asarray(UTPM.extract_jac_vec(f(UTPM(d[:2, :1].copy()))))
    except Exception:
        ctx.skip('sut-raises:extract'); return
    for tag, a, b in (('extract_jacobian', full, short), ('extract_jac_vec', fv, sv)):
        if a.shape != b.shape or not np.all(np.abs(a - b) <= TOL * (np.abs(b) + 1.0)):
            ctx.violation('extract:%s' % tag, {'D': D, 'N': N, 'with_D_coefficients': a.tolist(), 'with_two_coefficients': b.tolist()}); return
    ctx.ok('extract', ('extract', D, N))


def _latecomplex(ctx, p, rng):
    """a polynomial of complex dtype whose low-order coefficients are exactly real and whose imaginary parts only start at order k:
    the low orders must be what the same data truncated below k gives, also when the real base point lies on a branch cut
    (NumPy's value there is the one of the +0j side)"""
    D, k = p['D'], p['k']
    before = sum(ctx.violation_count.values())
    for nm, base in (('arcsin', [2.0, -1.5]), ('arccos', [1.75, -3.0]), ('sqrt', [-2.0, 0.5]), ('log', [-1.5, 2.0]), ('exp', [0.3, -1.0]), ('sin', [0.7, 2.0]),
                     ('arctan', [0.5, -2.0]), ('tan', [0.4, -0.6]), ('reciprocal', [-2.0, 0.5]), ('log1p', [-3.0, 0.5]), ('square', [1.5, -0.5])):
        d = np.zeros((D, 1, 2), dtype=complex)
        d[0, 0] = base
        d[1:, 0] = 0.5 * rng.normal(size=(D - 1, 2))
        d[k:, 0] += 0.5j * rng.normal(size=(D - k, 2))
        try:
            getattr(algopy, nm)(UTPM(d.copy()))
        except Exception:
            ctx.skip('sut-raises:latecomplex')
    try:
        x = UTPM(d.copy()); x.data[0] = [[2.0, 0.5]]
        x ** 2.5; x ** 3; x * x; x / (x + 3.0)
    except Exception:
        ctx.skip('sut-raises:latecomplex')
    if sum(ctx.violation_count.values()) == before:
        ctx.ok('late-complex', ('latecomplex', D, k))


def _highD(ctx, p, rng):
    """many coefficients (D >= 32): algorithm switches that depend on D must not change the low orders"""
    D = p['D']
    before = sum(ctx.violation_count.values())
    a = rng.normal(size=(D, 1, 2)); b = rng.normal(size=(D, 1, 2)); b[0] = np.abs(b[0]) + 1.0; a[0] = np.abs(a[0]) + 1.0
    g = [None, 2.0, 0.5][int(rng.integers(3))]
    if g:          # coefficients growing / decaying geometrically: the low orders are tiny resp. huge compared with the high ones
        a = a * (g ** np.arange(D)).reshape(D, 1, 1); b = b * (g ** np.arange(D)).reshape(D, 1, 1)
    X, Y = UTPM(a), UTPM(b)
    for f in (lambda: X * Y, lambda: X / Y, lambda: X ** 3, lambda: algopy.exp(0.1 * X), lambda: algopy.log(Y), lambda: algopy.sqrt(Y), lambda: algopy.dot(X, Y),
              lambda: algopy.square(X), lambda: algopy.sin(0.1 * X), lambda: 1.0 / Y,
              # functions built from a derivative series and one convolution
              lambda: algopy.special.erf(0.1 * X), lambda: algopy.expm1(0.1 * X), lambda: algopy.log1p(Y), lambda: algopy.special.expit(0.1 * X),
              lambda: algopy.special.dawsn(0.1 * X), lambda: algopy.arctan(0.1 * X), lambda: algopy.tanh(0.1 * X)):
        try:
            f()
        except Exception:
            ctx.skip('sut-raises:highD')
    # functions expanded from their closed-form derivatives, close to the border of their domain: derivatives of high order
    # overflow there (psi^(40)(1e-6) ~ 1e286), which is the business of the high coefficients only
    near = np.zeros((D, 1, 2)); near[0, 0] = [1e-6, 0.05]; near[1:] = 0.5 * rng.normal(size=(D - 1, 1, 2))
    for f in (lambda: algopy.special.psi(UTPM(near.copy())), lambda: algopy.special.gammaln(UTPM(near.copy())), lambda: algopy.special.polygamma(1, UTPM(near.copy())),
              lambda: algopy.special.gammaln(UTPM(near.astype(np.float32)))):
        try:
            with np.errstate(all='ignore'):
                f()
        except Exception:
            ctx.skip('sut-raises:highD')
    if sum(ctx.violation_count.values()) == before:
        ctx.ok('highD', ('highD', D))


def _kink(ctx, p, rng):
    """base points exactly on a kink (0 for abs/sign, ties for minimum/maximum, the bounds of clip, a zero of max): whatever
    convention the library uses there, low-order coefficients must not depend on the truncation degree"""
    D = p['D']
    before = sum(ctx.violation_count.values())
    for P in (1, 2):
        a = rng.normal(size=(D, P, 4)) * rng.choice([-2.0, 2.0], size=(D, P, 4))
        a[0] = 0.0; a[0, :, 3] = 1.0
        b = rng.normal(size=(D, P, 4)); b[0] = a[0]                     # ties at order 0
        X, Y = UTPM(a), UTPM(b)
        for f in (lambda: abs(X), lambda: X.fabs(), lambda: algopy.absolute(X), lambda: algopy.sign(X), lambda: algopy.minimum(X, Y), lambda: algopy.maximum(X, Y),
                  lambda: algopy.special.botched_clip(0.0, 1.0, X), lambda: UTPM.max(X), lambda: X * X, lambda: algopy.square(X), lambda: X ** 2, lambda: X ** 3,
                  lambda: X / Y, lambda: Y / X, lambda: X / X):          # 0/0 at the base point: the result (NaN) must not become finite for some D
            try:
                f()
            except Exception:
                ctx.skip('sut-raises:kink')
    if sum(ctx.violation_count.values()) == before:
        ctx.ok('kink', ('kink', D))


def _hostile(ctx, p, rng):
    """large high-order coefficients next to small structure at order 0 (close eigenvalues, tiny pivots, small R_ii):
    decisions must be taken from the zeroth coefficient only. The installed TruncationMonitor does the comparison."""
    D = p['D']
    before = sum(ctx.violation_count.values())
    n = 3
    w = p['which']
    big = 10.0 ** float(rng.integers(2, 5))
    if w == 0:      # close but distinct eigenvalues, huge higher coefficients
        Qm, _ = np.linalg.qr(rng.normal(size=(n, n)))
        lam = np.array([1.0, 1.0 + 10.0 ** -float(rng.integers(3, 6)), 3.0])
        a = big * rng.normal(size=(D, 1, n, n)); a[0, 0] = (Qm * lam) @ Qm.T
        a = 0.5 * (a + np.swapaxes(a, -1, -2))
        l, Q = algopy.eigh(UTPM(a))
    elif w == 1:    # qr with a tiny (but non-zero) diagonal entry of R_0, higher coefficients with exact zeros on the diagonal path
        a = rng.normal(size=(D, 1, n, n)); a[0, 0] = np.triu(rng.normal(size=(n, n))) + 2 * np.eye(n)
        a[1:, 0] = np.triu(a[1:, 0], 1) * big
        algopy.qr(UTPM(a))
        # reverse sweep through qr where higher-order coefficients of diag(R) vanish exactly (A_0 triangular, A_k strictly triangular)
        a2 = np.zeros((D, 2, n, n))
        for pp in range(2):
            a2[0, pp] = np.triu(rng.normal(size=(n, n))) + 2 * np.eye(n)
            a2[1:, pp] = np.triu(rng.normal(size=(D - 1, n, n)), 1)
        _sweeps(ctx, 'qr:triangular-input', lambda X: algopy.qr(X)[1] * 1.0 + algopy.dot(algopy.qr(X)[0], algopy.qr(X)[1]), [a2], D, 2, rng)
    elif w == 2:    # lu / det: pivot choice must come from A_0 although A_1 is huge
        a = big * rng.normal(size=(D, 1, n, n)); a[0, 0] = gen.base_sampler('wcperm')(rng, (n, n))
        algopy.det(UTPM(a)); algopy.lu(UTPM(a)); algopy.inv(UTPM(a))
    elif w == 3:    # elementary functions with branches: abs/sign/min/max decided by x_0 although x_1 is huge and of opposite sign
        a = big * rng.normal(size=(D, 2, 4)); a[0] = gen.base_sampler('nz')(rng, (2, 4)) * 1e-3
        b = big * rng.normal(size=(D, 2, 4)); b[0] = gen.base_sampler('nz')(rng, (2, 4)) * 1e-3
        X, Y = UTPM(a), UTPM(b)
        algopy.absolute(X); algopy.sign(X); algopy.minimum(X, Y); algopy.maximum(X, Y); UTPM.max(X)
    elif w == 4:    # svd of a matrix with close singular values
        U, _ = np.linalg.qr(rng.normal(size=(n, n))); V, _ = np.linalg.qr(rng.normal(size=(n, n)))
        s = np.array([2.0, 1.0 + 1e-4, 1.0])
        a = big * 1e-2 * rng.normal(size=(D, 1, n, n)); a[0, 0] = (U * s) @ V.T
        algopy.svd(UTPM(a))
    else:           # cholesky / solve with huge higher coefficients
        a = big * rng.normal(size=(D, 1, n, n)); a = 0.5 * (a + np.swapaxes(a, -1, -2)); a[0, 0] = gen.spd(rng, n)
        algopy.cholesky(UTPM(a)); algopy.solve(UTPM(a), UTPM(rng.normal(size=(D, 1, n, 2))))
    if sum(ctx.violation_count.values()) == before:
        ctx.ok('hostile:large-high-coefficients', ('hostile', w, D))


def _scale(b):
    D = b.shape[0]
    m = np.abs(b).reshape(D, -1).max(axis=1) if b.size else np.zeros(D)
    return np.maximum.accumulate(np.asarray(m, dtype=float)) + 1e-300


def _program(ctx, p, rng):
    D, P = p['D'], p['P']
    if p['prog'] == 'comp':
        desc, f = progs.random_program(rng, int(rng.integers(3, 10)), 'vector'); ins = [((3,), 'R')]; name = 'comp'; prog = None
    else:
        prog = progs.by_name(p['prog']); f = prog.f; ins = prog.ins; name = prog.name
        if prog.maxD:
            ctx.skip('maxD-program'); return
    xs = [gen.series_data(rng, D, P, shape, dom, 'random', False, 0.4) for shape, dom in ins]
    if prog is not None and not all(prog.in_domain([x[0, pp] for x in xs]) for pp in range(P)):
        ctx.skip('out_of_domain:regularity-condition'); return
    if p.get('highscale'):
        for x in xs:
            x[1:] *= p['highscale']
        return _sweeps(ctx, name + ':steep-curve', f, xs, D, P, rng, limit=1e80)
    return _sweeps(ctx, name, f, xs, D, P, rng)


def _sweeps(ctx, name, f, xs, D, P, rng, limit=1e8):
    probe.S.suppress = True
    try:
        try:
            cg, _ = progs.record(f, [x[0, 0].copy() for x in xs])
        except Exception:
            ctx.skip('not-traceable:' + name); return
        try:
            cg.pushforward([UTPM(x.copy()) for x in xs]); y = cg.dependentFunctionList[0].x
            if not isinstance(y, UTPM):
                ctx.skip('non-utpm-output'); return
            yfull = y.data.copy()
            ybar = rng.normal(size=yfull.shape)
            rev = True
            try:
                cg.pullback([UTPM(ybar.copy())])
                xbfull = [fx.xbar.data.copy() for fx in cg.independentFunctionList]
                if all(np.all(np.isfinite(xb)) for xb in xbfull) and max(np.max(np.abs(xb)) for xb in xbfull) > limit:
                    rev = False; ctx.skip('out_of_domain:huge-adjoint')
                # a non-finite adjoint of the full run is compared below: out of the domain only if the reduced run is non-finite too
            except Exception:
                rev = False
        except Exception:
            ctx.skip('replay-raises:' + name); return
        if not np.all(np.isfinite(yfull)) or (yfull.size and np.max(np.abs(yfull)) > limit):
            ctx.skip('out_of_domain:nonfinite'); return
        for Dp in range(1, D):
            cg.pushforward([UTPM(x[:Dp].copy()) for x in xs])
            y1 = cg.dependentFunctionList[0].x.data
            s = _scale(y1)
            err = np.abs(yfull[:Dp] - y1).reshape(Dp, -1).max(axis=1) / s if y1.size else np.zeros(Dp)
            if y1.shape != yfull[:Dp].shape or not np.all(err <= TOL):
                ctx.violation('program:forward:%s' % name, {'program': name, 'D': D, 'Dp': Dp, 'P': P, 'err_over_scale': float(np.max(err))}); return
            if rev:
                cg.pullback([UTPM(ybar[:Dp].copy())])
                for fx, xb in zip(cg.independentFunctionList, xbfull):
                    x1 = fx.xbar.data
                    if not np.all(np.isfinite(x1)):
                        ctx.skip('out_of_domain:nonfinite-adjoint'); continue
                    s = _scale(x1) + 1e-9 * np.max(np.abs(ybar))
                    err = np.abs(xb[:Dp] - x1).reshape(Dp, -1).max(axis=1) / s
                    if not np.all(err <= TOL * 10):
                        ctx.violation('program:reverse:%s' % name, {'program': name, 'D': D, 'Dp': Dp, 'P': P, 'first_bad_order': int(np.argmax(err)),
                                                                    'err_over_scale': float(np.max(err))}); return
        ctx.ok('program:forward', ('pf', name, D, P))
        if rev:
            ctx.ok('program:reverse', ('pr', name, D, P))
        # D = 1 reproduces the plain function value
        try:
            for pp in range(P):
                ynp = np.asarray(f(*[x[0, pp].copy() for x in xs]))
                if ynp.shape != yfull[0, pp].shape or not np.allclose(ynp, yfull[0, pp], rtol=1e-11, atol=1e-11 * (1 + np.max(np.abs(ynp)) if ynp.size else 1)):
                    ctx.violation('program:D1-equals-numpy:%s' % name, {'program': name, 'direction': pp}); return
            ctx.ok('program:D1-equals-numpy', ('d1', name))
        except Exception:
            ctx.skip('ndarray-run-unsupported:' + name)
    finally:
        probe.S.suppress = False


def finish(ctx):
    from .. import core
    ctx.extra['distinct_call_names_shadowed'] = len(ctx.extra.get('shadowed_calls_by_name', {}))
    return core.finish(ctx, REQUIRED, RULE, assumptions=ASSUMPTIONS)
