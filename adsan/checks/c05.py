"""C05 - replaying a recorded graph reproduces the program.
Monitors: (a) value computed while recording == program on the unwrapped operands; (b) replay-equals-direct for
replay inputs of kinds/degrees unrelated to the recording, several replays in random order (O-self);
(c) trace-specification checker over the user-level call log of the tracer (a spy on the public Function API):
every traced operation -> exactly one new node, which is the returned object, appended in execution order after its
operands; nothing appended while recording is off; trace_on resumes; a second CGraph redirects recording;
(d) icontract class invariants on CGraph (functionCount == len(functionList), node.ID == position)."""
import types, functools
import numpy as np
import icontract
import algopy
from algopy import UTPM, CGraph, Function
from ..core import case_seed
from .. import gen, progs

PID = 'C05'
TOL = 1e-12
RULE = ('every catalogue program and random compositions x recording operand {ndarray, UTPM(1,1), UTPM(2,2)} x replay sequences '
        '(length 2..5, random order) over {ndarray, UTPM(1,1), UTPM(2,3), UTPM(4,1), UTPM(3,2)}; each replay compared with the '
        'program run directly on that input (1e-12 x scale, bit-equality counted); trace specification checked on the call log '
        'of the Function API; class = (program, recording kind, replay kind); non-trivial = replay kind differs from the '
        'recording kind or the replay point differs from the recording point')
ASSUMPTIONS = ['running the program directly on ndarray/UTPM is the reference (forward mode is validated by C01/C02/C07/C08)',
               'constants may be wrapped into identity nodes anywhere before their first use (not checked)']
REPLAYS = [('ndarray', 0, 0), ('utpm', 1, 1), ('utpm', 2, 3), ('utpm', 4, 1), ('utpm', 3, 2)]


class GraphInvariantBroken(Exception):
    pass


def count_matches(self):
    return not hasattr(self, 'functionList') or self.functionCount == len(self.functionList)


def ids_are_positions(self):
    if not hasattr(self, 'functionList'):
        return True
    fl = self.functionList
    # (checked on the tail only: O(1) per call)
    return all(getattr(fl[i], 'ID', i) == i for i in range(max(0, len(fl) - 3), len(fl)))


_INV = {'n': 0}


def _counting(cond):
    @functools.wraps(cond)
    def w(self):
        _INV['n'] += 1
        return cond(self)
    return w


_installed = False


def setup(ctx, tier):
    global _installed
    if not _installed:
        icontract.invariant(_counting(count_matches), error=lambda self: GraphInvariantBroken('functionCount != len(functionList)'))(CGraph)
        icontract.invariant(_counting(ids_are_positions), error=lambda self: GraphInvariantBroken('node.ID != position'))(CGraph)
        _installed = True


def teardown(ctx):
    ctx.extra['graph_invariant_evaluations'] = _INV['n']


# --- spy on the public Function API (user-level call log) -------------------------------------------------

INTERNAL = {'__init__', '__repr__', '__str__', 'create', 'pushforward', 'pullback', 'xbar_from_x', 'totype', 'Id', 'get_ID',
            '_get_val', '__lt__', '__le__', '__gt__', '__ge__', 'get_shape', 'get_ndim', 'get_size', 'get_flat', 'zeros', 'ones'}


class Spy:
    def __init__(self):
        self.log = []          # (method name, result, graph length before, graph length after, recording graph)
        self.depth = 0
        self.ncalls = 0
        self.saved = {}

    def __enter__(self):
        for name, attr in list(Function.__dict__.items()):
            if name in INTERNAL or isinstance(attr, property):
                continue
            if isinstance(attr, classmethod):
                self.saved[name] = attr
                setattr(Function, name, classmethod(self._wrap(name, attr.__func__)))
            elif isinstance(attr, types.FunctionType):
                self.saved[name] = attr
                setattr(Function, name, self._wrap(name, attr))
        # T is a property built on transpose
        self.saved['T'] = Function.__dict__['T']
        Function.T = property(Function.__dict__['transpose'])
        return self

    def __exit__(self, *a):
        for name, attr in self.saved.items():
            setattr(Function, name, attr)

    def _wrap(self, name, f):
        spy = self

        @functools.wraps(f)
        def w(*args, **kw):
            d = spy.depth
            g = Function.cgraph
            n0 = len(g.functionList) if g is not None else None
            spy.depth = d + 1
            k0 = spy.ncalls
            spy.ncalls += 1
            try:
                r = f(*args, **kw)
            finally:
                spy.depth = d
            leaf = spy.ncalls == k0 + 1          # no nested call of the public Function API
            g1 = Function.cgraph
            spy.log.append((name, r, n0, len(g1.functionList) if g1 is not None else None, g, leaf, d))
            return r
        return w


def cases(tier, seed):
    out = []
    reps = 1 if tier == 'quick' else 60
    for prog in progs.cat():
        if 'nonunique' in prog.tags and 'cplx_replay' not in prog.tags:
            continue
        for rep in range(reps):
            for rec in ('ndarray', 'utpm11', 'utpmDP'):
                out.append({'kind': 'single', 'seed': case_seed('C05', seed, prog.name, rec, rep), 'params': {'prog': prog.name, 'rec': rec}})
    for i in range(150 if tier == 'quick' else 100000):
        s = case_seed('C05', seed, 'comp', i)
        r = np.random.default_rng(s)
        out.append({'kind': 'comp', 'seed': s, 'params': {'len': int(r.integers(3, 13)), 'rec': ['ndarray', 'utpm11', 'utpmDP'][int(r.integers(3))]}})
    for prog in progs.cat():
        if len(prog.ins) == 2 and prog.ins[0][1] == 'R':
            for rec in ('ndarray', 'utpm11', 'utpmDP'):
                out.append({'kind': 'late', 'seed': case_seed('C05', seed, 'late', prog.name, rec), 'params': {'prog': prog.name, 'rec': rec}})
    for i in range(12 if tier == 'quick' else 200):
        out.append({'kind': 'preamble', 'seed': case_seed('C05', seed, 'preamble', i), 'params': {'rec': 'ndarray', 'form': i % 4}})
    for i in range(8 if tier == 'quick' else 80):
        out.append({'kind': 'npconst', 'seed': case_seed('C05', seed, 'npconst', i), 'params': {'form': i}})
        out.append({'kind': 'polyconst', 'seed': case_seed('C05', seed, 'polyconst', i), 'params': {'form': i}})
    for i in range(3 if tier == 'quick' else 30):
        out.append({'kind': 'constbuf', 'seed': case_seed('C05', seed, 'constbuf', i), 'params': {}})
    for i in range(18 if tier == 'quick' else 300):
        out.append({'kind': 'selfconst', 'seed': case_seed('C05', seed, 'selfconst', i), 'params': {'rec': ['ndarray', 'utpm11', 'utpmDP'][i % 3], 'form': (i // 3) % 6}})
    for i in range(12 if tier == 'quick' else 60):
        out.append({'kind': 'onoff', 'seed': case_seed('C05', seed, 'onoff', i), 'params': {}})
    return out


REQUIRED = ['recording-value', 'replay:ndarray', 'replay:utpm', 'replay:complex', 'replay:same-object', 'trace-spec', 'trace-off', 'second-graph', 'late-independent', 'interleaved-recording', 'replay:constant-is-recording-object', 'preamble', 'numpy-scalar-constant']


def _same(a, b, tol=TOL):
    """a: replayed value, b: direct value; returns (ok, bit_exact, err)"""
    if isinstance(b, UTPM) != isinstance(a, UTPM):
        return False, False, 'type %s vs %s' % (type(a).__name__, type(b).__name__)
    ad = a.data if isinstance(a, UTPM) else np.asarray(a)
    bd = b.data if isinstance(b, UTPM) else np.asarray(b)
    if ad.shape != bd.shape:
        return False, False, 'shape %s vs %s' % (ad.shape, bd.shape)
    if ad.size == 0:
        return True, True, 0.0
    sc = float(np.max(np.abs(bd))) + 1e-300
    err = float(np.max(np.abs(ad - bd)) / sc)
    return err <= tol, bool(np.array_equal(ad, bd)), err


def _mk_replay(rng, prog_inputs, kind, D, P):
    """fresh replay inputs: list of ndarray or UTPM with base points inside the domains"""
    out = []
    for shape, dom in prog_inputs:
        if kind == 'ndarray':
            out.append(gen.base_sampler(dom)(rng, tuple(shape)))
        elif kind == 'cndarray':
            out.append(gen.base_sampler(dom)(rng, tuple(shape)) + 1j * rng.normal(size=tuple(shape)))
        elif kind == 'cutpm':
            out.append(UTPM(gen.series_data(rng, D, P, shape, dom, 'random', False, 0.4) + 1j * rng.normal(size=(D, P) + tuple(shape))))
        else:
            out.append(UTPM(gen.series_data(rng, D, P, shape, dom, 'random', False, 0.4)))
    return out


def _copy(v):
    return UTPM(v.data.copy()) if isinstance(v, UTPM) else np.array(v, copy=True)


# functions for which the tracer has no method (an explicit TypeError / NotImplementedError while recording; DESIGN section 4)
NO_TRACER_METHOD = {'arcsin', 'arccos', 'arctan', 'sinh', 'cosh', 'tanh', 'cplx:abs2_via_conj'}


def run_case(ctx, case):
    rng = gen.rng_of(case)
    p = case['params']
    if case['kind'] == 'onoff':
        return _onoff(ctx, rng)
    if case['kind'] == 'late':
        return _late(ctx, p, rng)
    if case['kind'] == 'selfconst':
        return _selfconst(ctx, p, rng)
    if case['kind'] == 'preamble':
        return _preamble(ctx, p, rng)
    if case['kind'] == 'constbuf':
        return _constbuf(ctx, p, rng)
    if case['kind'] == 'npconst':
        return _npconst(ctx, p, rng)
    if case['kind'] == 'polyconst':
        return _polyconst(ctx, p, rng)
    if case['kind'] == 'single':
        prog = progs.by_name(p['prog']); f = prog.f; ins = prog.ins; label = prog.name
    else:
        desc, f = progs.random_program(rng, p['len'], 'vector'); ins = [((3,), 'R')]; label = 'comp'
    rec_in = []
    for shape, dom in ins:
        rec_in.append(progs.rec_value(p['rec'], gen.base_sampler(dom)(rng, tuple(shape)), rng))
    # direct value on the unwrapped recording operands
    try:
        ydirect = f(*[_copy(v) for v in rec_in])
    except Exception:
        ctx.skip('forward-unsupported:' + label); return
    if isinstance(ydirect, tuple):
        ctx.skip('tuple-output'); return
    yd_ = ydirect.data if isinstance(ydirect, UTPM) else np.asarray(ydirect, dtype=complex)
    if not np.all(np.isfinite(yd_)) or (yd_.size and np.max(np.abs(yd_)) > 1e8):
        ctx.skip('out_of_domain:nonfinite-or-huge-value'); return
    try:
        with Spy() as spy:
            cg, y = progs.record(f, [_copy(v) for v in rec_in])
    except GraphInvariantBroken as e:
        ctx.violation('graph-invariant:' + str(e), {'program': label}); return
    except Exception as e:
        # the program runs on the unwrapped operands but cannot be recorded: a documented gap of the tracer (no Function method for
        # these functions) - or a violation of the first sentence of the property
        if label == 'comp' or label.split('@')[0].split(':')[0] in NO_TRACER_METHOD or label in NO_TRACER_METHOD:
            ctx.skip('not-traceable:' + label); return
        ctx.violation('recording-raises:%s' % label, {'program': label, 'rec': p['rec'], 'error': repr(e)[:200]}); return
    # (a) values while recording
    ok, exact, err = _same(y.x, ydirect)
    if not ok:
        ctx.violation('recording-value:%s' % label, {'program': label, 'rec': p['rec'], 'err': err}); return
    ctx.ok('recording-value', ('recval', label, p['rec']), exact=exact)
    # (c) trace specification
    if not _trace_spec(ctx, label, cg, spy):
        return
    if not _same_object_replays(ctx, label, f, cg, ins, rng, progs.by_name(p['prog']).maxD if case['kind'] == 'single' else None):
        return
    # (b) replays of unrelated kinds, in random order
    seq = [REPLAYS[i] for i in rng.choice(len(REPLAYS), size=int(rng.integers(2, 6)), replace=True)]
    if case['kind'] == 'single' and 'cplx_replay' in progs.by_name(p['prog']).tags:
        seq += [('cndarray', 0, 0), ('cutpm', 2, 2), ('ndarray', 0, 0)]
    for (kind, D, P) in seq:
        if case['kind'] == 'single' and progs.by_name(p['prog']).maxD and D > progs.by_name(p['prog']).maxD:
            continue
        xs = _mk_replay(rng, ins, kind, D, P)
        try:
            want = f(*[_copy(v) for v in xs])
        except Exception:
            ctx.skip('direct-run-unsupported:%s:%s' % (label, kind)); continue
        if not np.all(np.isfinite(want.data if isinstance(want, UTPM) else np.asarray(want, dtype=complex))):
            ctx.skip('out_of_domain:nonfinite'); continue
        mech = 'replay:%s:%s' % (kind, label)
        okkey = 'replay:' + ('complex' if kind.startswith('c') else kind)
        try:
            got = cg.function([_copy(v) for v in xs])[0]
        except GraphInvariantBroken as e:
            ctx.violation('graph-invariant:' + str(e), {'program': label}); return
        except Exception as e:
            ctx.violation(mech + ':raises', {'program': label, 'rec': p['rec'], 'replay': [kind, D, P], 'error': str(e)[:300]}); return
        ok, exact, err = _same(got, want)
        if not ok:
            ctx.violation(mech + ':value', {'program': label, 'rec': p['rec'], 'replay': [kind, D, P], 'err': err,
                                            'steps': [list(map(str, s)) for s in desc['steps']] if case['kind'] == 'comp' else None}); return
        ctx.ok(okkey, ('replay', label if case['kind'] == 'single' else 'comp', p['rec'], kind, D, P), exact=exact,
               noise=err if isinstance(err, float) else None,
               sample={'program': label, 'recorded_with': p['rec'], 'replayed_with': [kind, D, P], 'bit_exact': exact} if rng.random() < 0.01 else None)


def _same_object_replays(ctx, label, f, cg, ins, rng, maxD):
    """cg.function is called repeatedly with the very same input objects, which the caller updates in place in between,
    and another replay (other kind) happens in between: every result must follow the current values"""
    for (kind, D, P) in (('utpm', 2, 2), ('ndarray', 0, 0)):
        if maxD and D > maxD:
            continue
        xs = _mk_replay(rng, ins, kind, D, P)
        for step in range(3):
            try:
                want = f(*[_copy(v) for v in xs])
            except Exception:
                ctx.skip('direct-run-unsupported:%s:%s' % (label, kind)); return True
            wd = want.data if isinstance(want, UTPM) else np.asarray(want, dtype=complex)
            if not np.all(np.isfinite(wd)):
                ctx.skip('out_of_domain:nonfinite'); return True
            try:
                got = cg.function(xs)[0]
            except Exception as e:
                ctx.violation('replay:same-object:%s:raises' % label, {'program': label, 'kind': kind, 'step': step, 'error': str(e)[:200]}); return False
            ok, exact, err = _same(got, want)
            if not ok:
                ctx.violation('replay:same-object:%s:value' % label, {'program': label, 'kind': kind, 'step': step, 'err': err}); return False
            ctx.ok('replay:same-object', ('sameobj', label, kind, step), exact=exact)
            # the caller updates its inputs in place (small step that stays inside the domain); sometimes another replay runs in between
            for v, (shape, dom) in zip(xs, ins):
                tgt = v.data[0] if isinstance(v, UTPM) else v
                if getattr(tgt, 'ndim', 0) >= 0 and np.size(tgt):
                    fresh = gen.series_data(rng, 1, P or 1, shape, dom, 'random', False)[0]
                    if isinstance(v, UTPM):
                        v.data[0] = fresh
                    else:
                        v[...] = fresh[0]
            if step == 0:
                try:
                    cg.function(_mk_replay(rng, ins, 'utpm', 1, 1))
                except Exception:
                    pass
    return True


def _trace_spec(ctx, label, cg, spy):
    fl = cg.functionList
    # structural part
    for pos, node in enumerate(fl):
        if getattr(node, 'ID', None) != pos:
            ctx.violation('trace-spec:id!=position', {'program': label, 'pos': pos, 'ID': getattr(node, 'ID', None)}); return False
        for a in node.args:
            if isinstance(a, Function) and a is not node and hasattr(a, 'ID') and a in fl[:]:
                if a.ID >= pos:
                    ctx.violation('trace-spec:operand-after-node', {'program': label, 'pos': pos, 'arg': a.ID}); return False
    if cg.functionCount != len(fl):
        ctx.violation('trace-spec:count', {'program': label}); return False
    ids = set(id(n) for n in fl)
    if len(ids) != len(fl):
        ctx.violation('trace-spec:node-recorded-twice', {'program': label}); return False
    # every leaf call of the public Function API (an executed operation on traced operands) -> exactly one new
    # operation node, which is the returned object; calls are logged at return, i.e. in execution order of the leaves
    def is_aux(n):
        return n.func is Function.Id or getattr(n.func, '__name__', '') in ('Id', 'zeros', 'ones')
    opnodes = [n for n in fl if not is_aux(n)]
    k = 0
    for (name, res, n0, n1, g, leaf, depth) in spy.log:
        if g is not cg or not leaf:
            continue
        new = [n for n in fl[n0:n1] if not is_aux(n)]
        if len(new) != 1:
            ctx.violation('trace-spec:op-recorded-%s' % ('never' if not new else 'more-than-once'), {'program': label, 'call': name, 'new_nodes': len(new)}); return False
        if new[0] is not res:
            ctx.violation('trace-spec:returned-object-is-not-the-node', {'program': label, 'call': name}); return False
        if k >= len(opnodes) or opnodes[k] is not new[0]:
            ctx.violation('trace-spec:order', {'program': label, 'call': name, 'k': k}); return False
        k += 1
    if k != len(opnodes):
        ctx.violation('trace-spec:unexplained-nodes', {'program': label, 'explained': k, 'nodes': len(opnodes)}); return False
    ctx.ok('trace-spec', ('trace', label), sample={'program': label, 'nodes': len(fl), 'operations': k, 'auxiliary_nodes': len(fl) - len(opnodes)} if k > 6 and len(ctx.samples) < 6 else None)
    return True


def _preamble(ctx, p, rng):
    """nodes recorded BEFORE the first independent variable: traced parameters that are not declared independent, a workspace allocated
    from them, values computed from them - and only then x = Function(x0).  The workspace is updated in place by operations that
    depend on its previous content; every replay starts from the program's initial state"""
    form = p['form']
    p0 = np.round(rng.uniform(0.5, 2.0, size=3), 2)
    x0 = progs.rec_value(p['rec'], gen.base_sampler('R')(rng, (3,)), rng)

    def body(prm, w, q, x):
        if form == 0:
            for i in range(3):
                w[i] = w[i] + prm[i] * x[i]                 # accumulation into the workspace
            return w * q
        if form == 1:
            w[0] = x[0] * prm[0]                            # partial overwrite that relies on the fresh zeros elsewhere
            return w + algopy.sin(x) * q
        if form == 2:
            t = w[0] * 1.0 + q[1]
            w[0] = w[2] + x[1]; w[2] = t * x[0]            # swap-like update
            return w * x
        w[...] = w + x * x                                  # whole-buffer update that reads the previous content
        w[1] = w[1] * q[1]
        return w

    def direct(xv):
        prm = p0.copy()
        w = algopy.zeros(3, dtype=xv) if isinstance(xv, UTPM) else np.zeros(3)
        q = prm * 2.0 + 1.0
        return body(prm, w, q, xv)
    try:
        cg = CGraph()
        prm = Function(p0.copy())                   # traced, but not an independent variable
        w = algopy.zeros(3, dtype=prm)
        q = prm * 2.0 + 1.0
        x = Function(_copy(x0))
        y = body(prm, w, q, x)
        cg.trace_off()
        cg.independentFunctionList = [x]; cg.dependentFunctionList = [y]
    except Exception:
        ctx.skip('not-traceable:preamble'); return
    ok, exact, err = _same(y.x, direct(_copy(x0)))
    if not ok:
        ctx.violation('preamble:recording-value', {'form': form, 'rec': p['rec'], 'err': err}); return
    # the workspace is typed like the (plain array) parameters, so it can hold plain values only: replays at plain points
    for (kind, D, P) in [('ndarray', 0, 0)] * 3:
        xs = _mk_replay(rng, [((3,), 'R')], kind, D, P)
        try:
            want = direct(_copy(xs[0]))
        except Exception:
            ctx.skip('direct-run-unsupported:preamble'); continue
        try:
            got = cg.function([_copy(xs[0])])[0]
        except Exception as e:
            ctx.violation('preamble:replay:raises', {'form': form, 'rec': p['rec'], 'replay': [kind, D, P], 'error': str(e)[:200]}); return
        ok, exact, err = _same(got, want)
        if not ok:
            ctx.violation('preamble:replay:value', {'form': form, 'rec': p['rec'], 'replay': [kind, D, P], 'err': err}); return
        ctx.ok('preamble', ('preamble', form, p['rec'], kind, D, P), exact=exact)


def _polyconst(ctx, p, rng):
    """a Taylor-polynomial CONSTANT (a parameter of the program carried along with its own derivatives, not traced) combined with a
    traced value - on the left and on the right of every operator and as first and as second argument of the two-argument functions:
    recording yields what the program yields on the unwrapped operands, so does the replay at another point"""
    D, P = [(1, 1), (2, 1), (3, 2), (2, 3)][p['form'] % 4]
    n = 3
    cdat = gen.series_data(rng, D, P, (n,), 'pos', 'random', False, 0.4)
    Adat = gen.series_data(rng, D, P, (n, n), 'R', 'random', False, 0.3); Adat[0] += 3.0 * np.eye(n)
    c = UTPM(cdat.copy()); Ac = UTPM(Adat.copy())
    # (the reflected operator of the traced value evaluates x * c for c * x: the same sum in another order)
    _same = lambda u, v: bool(np.all(np.abs(u - v) <= 4e-16 * D * np.maximum.accumulate(np.abs(v), axis=0) + 1e-300))
    forms = [('c + x', lambda x: c + x), ('c - x', lambda x: c - x), ('c * x', lambda x: c * x), ('c / x', lambda x: c / x),
             ('x + c', lambda x: x + c), ('x / c', lambda x: x / c), ('minimum(c, x)', lambda x: algopy.minimum(c, x)), ('maximum(c, x)', lambda x: algopy.maximum(c, x)),
             ('maximum(x, c)', lambda x: algopy.maximum(x, c)), ('dot(c, x)', lambda x: algopy.dot(c, x)), ('solve(A, x)', lambda x: algopy.solve(Ac, x.reshape((n, 1)))),
             ('outer(c, x)', lambda x: algopy.outer(c, x)), ('(c * x) + (c / x) - dot(c, x)', lambda x: (c * x) + (c / x) - algopy.dot(c, x))]
    for name, f in forms:
        x0 = gen.series_data(rng, D, P, (n,), 'pos', 'random', False, 0.4) + 1.0
        try:
            want = f(UTPM(x0.copy()))
        except Exception:
            ctx.skip('unsupported:polyconst:' + name); continue
        try:
            cg = CGraph()
            fx = Function(UTPM(x0.copy()))
            y = f(fx)
            cg.trace_off()
            cg.independentFunctionList = [fx]; cg.dependentFunctionList = [y]
        except Exception as e:
            try:
                cg.trace_off()
            except Exception:
                pass
            ctx.violation('polynomial-constant:recording-raises', {'expression': name, 'D': D, 'P': P, 'error': repr(e)[:160]}); return
        if not (isinstance(y, Function) and isinstance(y.x, UTPM) and y.x.data.shape == want.data.shape and _same(y.x.data, want.data)):
            ctx.violation('polynomial-constant:recording-value', {'expression': name, 'D': D, 'P': P}); return
        x1 = gen.series_data(rng, D, P, (n,), 'pos', 'random', False, 0.4) + 1.0
        try:
            got = cg.function([UTPM(x1.copy())])[0]
        except Exception as e:
            ctx.violation('polynomial-constant:replay:raises', {'expression': name, 'error': repr(e)[:160]}); return
        want1 = f(UTPM(x1.copy()))
        if not (isinstance(got, UTPM) and got.data.shape == want1.data.shape and _same(got.data, want1.data)):
            ctx.violation('polynomial-constant:replay:value', {'expression': name, 'D': D, 'P': P}); return
        ctx.ok('polynomial-constant', ('polyconst', name, D, P))


def _npconst(ctx, p, rng):
    """constants that are NumPy scalars or zero-dimensional arrays, with traced data of a narrower type (float32 / int32 arrays):
    NumPy scalars take part in type promotion (x_float32 + numpy.float64(1e-4) is float64), Python scalars do not - tracing must not
    turn one into the other"""
    dt = [np.float32, np.int32, np.float32, np.complex64][p['form'] % 4]
    x0 = (np.round(gen.base_sampler('R')(rng, (3,)) * 100)).astype(dt) if dt is np.int32 else gen.base_sampler('R')(rng, (3,)).astype(dt)
    c1, c2, c3 = np.float64(1e-4), np.int64(100000), np.array(0.1)
    f = [lambda x: (x + c1) - x, lambda x: x * c2 + c2, lambda x: x * c3 - c1, lambda x: (c1 * x) / c3 + c2][p['form'] % 4]
    try:
        cg = CGraph()
        fx = Function(x0.copy())
        y = f(fx)
        cg.trace_off()
        cg.independentFunctionList = [fx]; cg.dependentFunctionList = [y]
    except Exception:
        ctx.skip('not-traceable:npconst'); return
    want = f(x0.copy())
    got = np.asarray(y.x)
    if got.dtype != np.asarray(want).dtype or not np.array_equal(got, want):
        ctx.violation('numpy-scalar-constant:recording-value', {'data_dtype': np.dtype(dt).name, 'form': p['form'] % 4, 'got_dtype': str(got.dtype), 'want_dtype': str(np.asarray(want).dtype)}); return
    for _ in range(2):
        x1 = (np.round(gen.base_sampler('R')(rng, (3,)) * 100)).astype(dt) if dt is np.int32 else gen.base_sampler('R')(rng, (3,)).astype(dt)
        try:
            got = np.asarray(cg.function([x1.copy()])[0])
        except Exception as e:
            ctx.violation('numpy-scalar-constant:replay:raises', {'error': str(e)[:200]}); return
        want = np.asarray(f(x1.copy()))
        if got.dtype != want.dtype or not np.array_equal(got, want):
            ctx.violation('numpy-scalar-constant:replay:value', {'data_dtype': np.dtype(dt).name, 'form': p['form'] % 4, 'got_dtype': str(got.dtype), 'want_dtype': str(want.dtype)}); return
    ctx.ok('numpy-scalar-constant', ('npconst', p['form'] % 4))


def _constbuf(ctx, p, rng):
    """a work buffer created as a node around a constant array, `acc = Function(numpy.zeros(n))` (the idiom of the library's own
    tracer tests), read before it is overwritten: every replay starts from the zeros the program starts from"""
    x0 = gen.base_sampler('R')(rng, (3,))

    def body(acc, x):
        acc[0] = acc[0] + x[0]              # read-modify-write
        acc[1] = acc[0] * x[1]
        acc[2] = acc[2] - x[2] * acc[1]
        acc[0] = acc[0] + acc[1]
        return acc * 1.0
    try:
        cg = CGraph()
        x = Function(x0.copy())
        y = body(Function(np.zeros(3)), x)
        cg.trace_off()
        cg.independentFunctionList = [x]; cg.dependentFunctionList = [y]
    except Exception:
        ctx.skip('not-traceable:constbuf'); return
    if not np.array_equal(np.asarray(y.x), body(np.zeros(3), x0.copy())):
        ctx.violation('constant-node-buffer:recording-value', {}); return
    for rep in range(3):
        x1 = x0.copy() if rep == 0 else gen.base_sampler('R')(rng, (3,))
        try:
            got = np.asarray(cg.function([x1.copy()])[0])
        except Exception as e:
            ctx.violation('constant-node-buffer:replay:raises', {'error': str(e)[:200]}); return
        want = body(np.zeros(3), x1.copy())
        if not np.allclose(got, want, rtol=1e-13, atol=1e-13):
            ctx.violation('constant-node-buffer:replay:value', {'replay': rep, 'got': got.tolist(), 'want': want.tolist()}); return
    ctx.ok('constant-node-buffer', ('constbuf',))


def _selfconst(ctx, p, rng):
    """the program uses, as a constant, the very array object the independent variable was created from (x0 = ...; x = Function(x0);
    y = f(x, x0) - a residual against the starting point, a step relative to it): on a replay the constant is still x0"""
    shape = [(3,), (2, 2), (3,)][p['form'] % 3]
    c = progs.rec_value(p['rec'], gen.base_sampler('R')(rng, shape), rng)
    c0 = _copy(c)

    def buf(x, c):
        b = algopy.zeros(shape, dtype=x)
        b[...] = c
        return b * x + x
    f = [lambda x, c: x * c, lambda x, c: c + x * x, lambda x, c: (x - c) * (x - c) + algopy.sin(x), lambda x, c: x / (c * c + 1.0),
         buf, lambda x, c: algopy.dot(c, x) if len(shape) == 2 else c * algopy.sum(x)][p['form']]
    try:
        cg = CGraph()
        fx = Function(c)
        y = f(fx, c)
        cg.trace_off()
        cg.independentFunctionList = [fx]; cg.dependentFunctionList = [y]
    except Exception:
        ctx.skip('not-traceable:selfconst'); return
    D, P = (c.data.shape[:2] if isinstance(c, UTPM) else (2, 2))
    for kind in ('ndarray', 'utpm', 'ndarray'):
        xs = _mk_replay(rng, [(shape, 'R')], kind, D, P)
        try:
            want = f(_copy(xs[0]), c0)
        except Exception:
            ctx.skip('direct-run-unsupported:selfconst'); continue
        try:
            got = cg.function([_copy(xs[0])])[0]
        except Exception as e:
            ctx.violation('replay:constant-is-recording-object:raises', {'form': p['form'], 'rec': p['rec'], 'replay': kind, 'error': str(e)[:200]}); return
        ok, exact, err = _same(got, want)
        if not ok:
            ctx.violation('replay:constant-is-recording-object:value', {'form': p['form'], 'rec': p['rec'], 'replay': kind, 'err': err}); return
        ctx.ok('replay:constant-is-recording-object', ('selfconst', p['form'], p['rec'], kind), exact=exact)
    cnow = c.data if isinstance(c, UTPM) else c
    if not np.array_equal(cnow, c0.data if isinstance(c0, UTPM) else c0):
        ctx.violation('replay:constant-is-recording-object:recording-array-changed', {'form': p['form'], 'rec': p['rec']}); return


def _late(ctx, p, rng):
    """operations on the first input are recorded before the second independent is created; a buffer and a view
    of it are allocated in between"""
    prog = progs.by_name(p['prog'])

    def pre(a):
        b = algopy.zeros(a.shape, dtype=a)
        b[...] = algopy.sin(a) + a
        v = b[...]
        return v * 1.0 + algopy.exp(0.2 * a) - 1.0

    def g(a, b):
        return prog.f(pre(a), b)
    rec_in = [progs.rec_value(p['rec'], gen.base_sampler(dom)(rng, tuple(shape)), rng) for shape, dom in prog.ins]
    try:
        cg = CGraph()
        fa = Function(_copy(rec_in[0]))
        t = pre(fa)
        fb = Function(_copy(rec_in[1]))
        y = prog.f(t, fb)
        cg.trace_off()
        cg.independentFunctionList = [fa, fb]; cg.dependentFunctionList = [y]
    except Exception:
        ctx.skip('not-traceable:late:' + prog.name); return
    for (kind, D, P) in [REPLAYS[i] for i in rng.choice(len(REPLAYS), size=3, replace=False)]:
        xs = _mk_replay(rng, prog.ins, kind, D, P)
        try:
            want = g(*[_copy(v) for v in xs])
        except Exception:
            ctx.skip('direct-run-unsupported:late'); continue
        try:
            got = cg.function([_copy(v) for v in xs])[0]
        except Exception as e:
            ctx.violation('late-independent:raises', {'program': prog.name, 'replay': [kind, D, P], 'error': str(e)[:200]}); return
        ok, exact, err = _same(got, want)
        if not ok:
            ctx.violation('late-independent:value', {'program': prog.name, 'rec': p['rec'], 'replay': [kind, D, P], 'err': err}); return
        ctx.ok('late-independent', ('late', prog.name, p['rec'], kind, D, P), exact=exact)


_INVG = []


def _INV_GRAPH():
    """a finished graph of inv(X), recorded once per process"""
    if not _INVG:
        saved = Function.cgraph
        g = CGraph()
        X = Function(np.array([[2.0, 1.0], [0.5, 3.0]]))
        Y = algopy.inv(X)
        g.trace_off()
        g.independentFunctionList = [X]; g.dependentFunctionList = [Y]
        Function.cgraph = saved          # building the helper graph must not disturb a recording in progress
        _INVG.append(g)
    return _INVG[0]


def _onoff(ctx, rng):
    x0 = rng.normal(size=3)
    kind = ['ndarray', 'utpm11', 'utpmDP'][int(rng.integers(3))]
    cg = CGraph()
    x = Function(progs.rec_value(kind, x0, rng))
    a = algopy.sin(x) * x
    n1 = len(cg.functionList)
    cg.trace_off()
    b = algopy.exp(a) + x[0]                     # executed, must not be recorded
    n2 = len(cg.functionList)
    xv = x.x
    want_b = algopy.exp(algopy.sin(xv) * xv) + xv[0]
    okv, _, err = _same(b.x, want_b)
    if n2 != n1 or Function.cgraph is not None:
        ctx.violation('trace-off:recorded-while-off', {'before': n1, 'after': n2}); return
    if not okv:
        ctx.violation('trace-off:value', {'err': err}); return
    ctx.ok('trace-off', ('off', kind))
    cg.trace_on()
    c = a * a + 2.0
    n3 = len(cg.functionList)
    if n3 <= n2 or Function.cgraph is not cg or c not in cg.functionList:
        ctx.violation('trace-on:did-not-resume', {'before': n2, 'after': n3}); return
    snapshot = list(cg.functionList)
    cg2 = CGraph()                                # redirects recording
    z = Function(progs.rec_value(kind, x0, rng))
    w = algopy.cos(z) - z
    cg2.trace_off()
    if cg.functionList != snapshot or len(cg2.functionList) < 3 or any(n in cg.functionList for n in cg2.functionList):
        ctx.violation('second-graph:first-graph-touched', {'first': len(cg.functionList), 'snapshot': len(snapshot), 'second': len(cg2.functionList)}); return
    cg.independentFunctionList = [x]; cg.dependentFunctionList = [c]
    cg2.independentFunctionList = [z]; cg2.dependentFunctionList = [w]
    # a finished graph is evaluated (forward, reverse, driver) in the middle of the recording of a third graph
    cg3 = CGraph()
    u = Function(progs.rec_value(kind, x0, rng))
    s1 = algopy.sin(u) * u
    g1 = cg.function([rng.normal(size=3)])[0]                     # uses the finished graph, e.g. to obtain a constant
    cg.pushforward([UTPM(rng.normal(size=(2, 1, 3)))]); cg.pullback([UTPM(rng.normal(size=(2, 1, 3)))])
    # ... and an evaluation of a finished graph that fails (a singular matrix for inv, an argument that cannot be converted) and is
    # caught by the caller: recording of the third graph goes on
    failed = 0
    for bad_call in (lambda: _INV_GRAPH().function([np.zeros((2, 2))]), lambda: cg.function([object()]),
                     lambda: cg.pullback([UTPM(rng.normal(size=(2, 1, 4)))])):
        try:
            bad_call()
        except Exception:
            failed += 1
    n_before = len(cg3.functionList)
    s2 = s1 * 2.0 + algopy.exp(0.1 * u)                            # must still be recorded into cg3
    cg3.trace_off()
    if Function.cgraph is not None or s2 not in cg3.functionList or len(cg3.functionList) <= n_before:
        ctx.violation('interleaved-recording:operations-after-evaluating-another-graph-not-recorded', {'nodes': len(cg3.functionList), 'before': n_before}); return
    cg3.independentFunctionList = [u]; cg3.dependentFunctionList = [s2]
    xe = rng.normal(size=3)
    got3 = cg3.function([xe.copy()])[0]
    if not np.allclose(got3, np.sin(xe) * xe * 2.0 + np.exp(0.1 * xe), rtol=1e-13):
        ctx.violation('interleaved-recording:replay-value', {}); return
    ctx.ok('interleaved-recording', ('interleaved', kind))
    # both graphs evaluate independently, interleaved
    for _ in range(2):
        xe = rng.normal(size=3)
        got1 = cg.function([xe.copy()])[0]; got2 = cg2.function([xe.copy()])[0]
        a_ = np.sin(xe) * xe
        if not (np.allclose(got1, a_ * a_ + 2.0, rtol=1e-13) and np.allclose(got2, np.cos(xe) - xe, rtol=1e-13)):
            ctx.violation('second-graph:interleaved-evaluation', {}); return
    ctx.ok('second-graph', ('two', kind))


def finish(ctx):
    from .. import core
    if not ctx.extra.get('graph_invariant_evaluations'):
        ctx.monitor_errors.append({'where': 'icontract', 'error': 'graph invariants were never evaluated', 'tb': '', 'case': None})
    return core.finish(ctx, REQUIRED, RULE, assumptions=ASSUMPTIONS)
