"""C01 - elementary functions return the Taylor coefficients of f(x(t)).
Monitor: postcondition on the public function call; oracle O-mp (+ majorant)."""
import numpy as np
import mpmath as mp
import algopy
from algopy import UTPM
from .. import mporacle as O, gen
from ..core import case_seed

PID = 'C01'
TAU = 1e-9
TAU_FN = {'hyperu': 1e-7}        # scipy.special.hyperu itself is only ~1e-10 accurate
RULE = ('cross product function x D x coefficient pattern (P, shape, dtype real/complex, entry point drawn per case); '
        'memory layout of the input {C, Fortran, transposed view, strided, negative stride} drawn per case; every element and direction of the result is compared at every order d<D with the mpmath composition oracle, '
        'tolerance 1e-9 x majorant; a class = (function, D, P, shape, dtype, pattern, entry point); non-trivial = '
        'D>=2 and the pattern has a non-zero higher coefficient, or D==1 (value check)')
ASSUMPTIONS = ['mpmath 1.3 special functions and mp.taylor at 60+ digits are correct (cross-checked in selftest/oracles.py)',
               'base points are drawn inside guarded domains (distance from poles/kinks/branch cuts >= 0.1)']


def _hy(a, b):
    return lambda x: mp.hyperu(a, b, x)


# name -> (callable(x UTPM) variants by entry point, mp function, real domain, complex domain or None)
def table():
    sp = algopy.special
    T = {}

    def add(name, mpf, dom, cdom, **entries):
        base = name.rstrip('0123456789').split('_')[0]
        if 'glob' in entries and hasattr(algopy.Function, base):
            # the value computed while wrapped in a tracer node (Function) is the same Taylor polynomial
            entries['traced'] = (lambda g: lambda x: g(algopy.Function(x)).x)(entries['glob'])
        T[name] = dict(mp=mpf, dom=dom, cdom=cdom, entries=entries)
    add('exp', mp.exp, 'R', 'R', glob=algopy.exp, meth=lambda x: x.exp(), npy=np.exp)
    add('expm1', mp.expm1, 'R', 'R', glob=algopy.expm1, meth=lambda x: x.expm1(), npy=np.expm1)
    add('log', mp.log, 'pos', 'pos', glob=algopy.log, meth=lambda x: x.log(), npy=np.log)
    add('log1p', mp.log1p, 'gtm1', 'gtm1', glob=algopy.log1p, meth=lambda x: x.log1p(), npy=np.log1p)
    add('sqrt', mp.sqrt, 'pos', 'pos', glob=algopy.sqrt, meth=lambda x: x.sqrt(), npy=np.sqrt)
    add('sin', mp.sin, 'R', 'R', glob=algopy.sin, meth=lambda x: x.sin(), npy=np.sin, pair=lambda x: x.sincos()[0])
    add('cos', mp.cos, 'R', 'R', glob=algopy.cos, meth=lambda x: x.cos(), npy=np.cos, pair=lambda x: x.sincos()[1])
    add('tan', mp.tan, 'tan', 'tan', glob=algopy.tan, meth=lambda x: x.tan(), npy=np.tan)
    add('arcsin', mp.asin, 'unit', 'unit', glob=algopy.arcsin, meth=lambda x: x.arcsin(), npy=np.arcsin)
    add('arccos', mp.acos, 'unit', 'unit', glob=algopy.arccos, meth=lambda x: x.arccos(), npy=np.arccos)
    add('arctan', mp.atan, 'R', 'unit', glob=algopy.arctan, meth=lambda x: x.arctan(), npy=np.arctan)
    add('sinh', mp.sinh, 'R', 'R', glob=algopy.sinh, meth=lambda x: x.sinh(), npy=np.sinh, pair=lambda x: x.sinhcosh()[0])
    add('cosh', mp.cosh, 'R', 'R', glob=algopy.cosh, meth=lambda x: x.cosh(), npy=np.cosh, pair=lambda x: x.sinhcosh()[1])
    add('tanh', mp.tanh, 'R', 'tanh', glob=algopy.tanh, meth=lambda x: x.tanh(), npy=np.tanh)
    add('reciprocal', lambda x: 1 / x, 'nz', 'nz', glob=algopy.reciprocal, meth=lambda x: UTPM.reciprocal(x),
        div=lambda x: 1.0 / x)
    add('square', lambda x: x * x, 'R', 'R', glob=algopy.square, meth=lambda x: UTPM.square(x), npy=np.square)
    add('negative', lambda x: -x, 'R', 'R', glob=algopy.negative, meth=lambda x: UTPM.negative(x), neg=lambda x: -x)
    add('erf', mp.erf, 'R', 'R', glob=sp.erf, meth=lambda x: UTPM.erf(x))
    add('erfi', mp.erfi, 'R', 'R', glob=sp.erfi, meth=lambda x: UTPM.erfi(x))
    add('dawsn', O.dawsn, 'R', 'R', glob=sp.dawsn, meth=lambda x: UTPM.dawsn(x))
    add('logit', O.logit, 'logit', None, glob=sp.logit, meth=lambda x: UTPM.logit(x))
    add('expit', O.expit, 'R', None, glob=sp.expit, meth=lambda x: UTPM.expit(x))
    add('gammaln', mp.loggamma, 'gamma', None, glob=sp.gammaln, meth=lambda x: UTPM.gammaln(x))
    add('psi', mp.digamma, 'gamma', None, glob=sp.psi, meth=lambda x: UTPM.psi(x))
    # between the poles on the negative axis (log|Gamma| is smooth there; mpmath's loggamma carries an additional +-i pi k)
    add('gammaln_negative_axis', lambda z: mp.re(mp.loggamma(z)), 'gamma_neg', None, glob=sp.gammaln, meth=lambda x: UTPM.gammaln(x))
    add('psi_negative_axis', mp.digamma, 'gamma_neg', None, glob=sp.psi, meth=lambda x: UTPM.psi(x))
    add('polygamma1_negative_axis', lambda z: mp.psi(1, z), 'gamma_neg', None, glob=lambda x: sp.polygamma(1, x), meth=lambda x: UTPM.polygamma(1, x))
    for n in (0, 1, 2, 3):
        add('polygamma%d' % n, (lambda n: lambda x: mp.psi(n, x))(n), 'gamma', None,
            glob=(lambda n: lambda x: sp.polygamma(n, x))(n), meth=(lambda n: lambda x: UTPM.polygamma(n, x))(n))
    for a, b in ((1.5, 2.25), (1.0, 1.5), (0.5, 0.75), (2.0, 0.75), (-1.0, 1.5), (-2.0, 0.75), (-0.5, 1.25)):
        add('hyperu_%g_%g' % (a, b), _hy(a, b), 'gamma', None,
            glob=(lambda a, b: lambda x: sp.hyperu(a, b, x))(a, b), meth=(lambda a, b: lambda x: UTPM.hyperu(a, b, x))(a, b))
    for r in (0, 1, 2, 3, 4, 5, 6, 7, 9, 12):
        add('pow_int_%d' % r, (lambda r: lambda x: x ** r)(r), 'R', 'R', op=(lambda r: lambda x: x ** r)(r),
            npint=(lambda r: lambda x: x ** np.int64(r))(r))
    for r in (1, 2, 3, 4):          # polynomials are smooth at 0: base points with exact zeros, python and numpy integer exponents
        add('pow_int_zero_base_%d' % r, (lambda r: lambda x: x ** r)(r), 'Rzero', None, op=(lambda r: lambda x: x ** r)(r),
            npint=(lambda r: lambda x: x ** np.int64(r))(r), npint32=(lambda r: lambda x: x ** np.int32(r))(r),
            zerod=(lambda r: lambda x: x ** np.array(r))(r), zerod16=(lambda r: lambda x: x ** np.array(r, dtype=np.int16))(r))
    add('square_zero_base', lambda x: x * x, 'Rzero', None, glob=algopy.square, mul=lambda x: x * x)
    for r in (-1, -2, -3):
        add('pow_negint_%d' % (-r), (lambda r: lambda x: x ** r)(r), 'nz', 'nz', op=(lambda r: lambda x: x ** r)(r))
    for r in (0.5, 2.5, -1.5, 1.0 / 3, 3.0):
        add('pow_real_%.3g' % r, (lambda r: lambda x: x ** mp.mpf(r))(r), 'pos', 'pos', op=(lambda r: lambda x: x ** r)(r),
            npf=(lambda r: lambda x: x ** np.float64(r))(r))
    for b in (2, 2.5, 0.5):
        add('rpow_%g' % b, (lambda b: lambda x: mp.mpf(b) ** x)(b), 'R', 'R', op=(lambda b: lambda x: b ** x)(b))
    return T


PIECEWISE = ['absolute', 'abs', 'fabs', 'sign', 'minimum', 'maximum', 'clip_in', 'clip_out']
SPECIAL2 = ['pow_utpm']     # x ** y with both Taylor polynomials

_T = None


def T():
    global _T
    if _T is None:
        _T = table()
    return _T


def cases(tier, seed):
    if tier == 'quick':
        Ds, pats, reps = [1, 2, 3, 5, 8], ['random', 'zeros_high', 'last_only', 'x1_zero', 'alternating', 'big'], 1
        Ps, shapes = [1, 2, 3, 1, 2, 5, 1, 2, 3, 1, 2, 33], [(), (1,), (3,), (2, 2), (2, 1, 2), (1, 3)]
    else:
        Ds, pats, reps = [1, 2, 3, 4, 6, 8, 10, 12], gen.PATTERNS, 1
        Ps, shapes = [1, 2, 3, 4], [(), (1,), (3,), (2, 2), (2, 1, 2), (1, 3)]
    out = []
    names = list(T().keys()) + PIECEWISE + SPECIAL2
    for name in names:
        for D in Ds:
            if name.startswith('hyperu') and D > (5 if tier == 'quick' else 6):
                continue        # mp.taylor of mp.hyperu costs minutes beyond that
            if name.startswith(('gammaln', 'psi', 'polygamma', 'erfi', 'dawsn')) and D > (8 if 'negative_axis' not in name else 5):
                continue        # numerical differentiation of these mpmath functions is slow at high order
            for pat in pats:
                for rep in range(reps):
                    s = case_seed('C01', seed, name, D, pat, rep)
                    r = np.random.default_rng(s)
                    out.append({'kind': 'fn', 'seed': s, 'params': {
                        'fn': name, 'D': D, 'pattern': pat, 'P': int(r.choice(Ps)),
                        'shape': list(shapes[int(r.integers(len(shapes)))]), 'cplx': bool(r.integers(2)),
                        'entry': int(r.integers(12)),
                        'layout': ['C', 'C', 'F', 'T', 'strided', 'reversed', 'unaligned'][int(r.integers(7))],
                        'single': bool(r.random() < 0.2 and D <= 5 and pat in ('random', 'zeros_high', 'x1_zero', 'last_only'))}})
    # U(-n, b, x) is a polynomial of degree n: base points where one of its derivatives vanishes EXACTLY (the linear (n-1)-th one at
    # x = b + n - 1, representable for half-integer b) while later ones do not - all elements and directions on that point, and a mix
    for n_ in (3, 4, 5):
        for b_ in (0.5, 1.5, 2.5):
            for D in ((4, 5, 6) if tier == 'quick' else (4, 5, 6, 7)):
                out.append({'kind': 'hyperu_poly', 'seed': case_seed('C01', seed, 'hyperu_poly', n_, b_, D), 'params': {'n': n_, 'b': b_, 'D': D}})
    # |x(t)| of a complex polynomial is a real-analytic function of t away from x_0 = 0: sqrt(x(t) conj(x(t)))
    for D in ((1, 2, 3, 5) if tier == 'quick' else (1, 2, 3, 4, 6, 8)):
        for rep in range(3 if tier == 'quick' else 8):
            for entry in range(6):
                out.append({'kind': 'abs_complex', 'seed': case_seed('C01', seed, 'abs_complex', D, rep, entry), 'params': {'D': D, 'entry': entry, 'P': 1 + rep % 3,
                            'shape': [[], [3], [2, 2]][rep % 3], 'scale': [1.0, 1.0, 1e200, 1e-200, 1e160, 3e-170][(rep + entry) % 6]}})
    return out + extreme_cases(tier, seed)


# arguments of extreme magnitude inside the domain, chosen so that the function value stays representable; orders whose exact
# coefficient (or majorant) exceeds 1e290 are not compared; vanishing ones are compared against the absolute floor
EXTREME = {'exp': [600., -600.], 'expm1': [600., -40., -700.], 'log': [1e200], 'log1p': [1e200], 'sqrt': [1e200], 'sin': [1e6], 'cos': [1e6],
           'arctan': [1e100, -1e100], 'sinh': [600., -600.], 'cosh': [600., -600.], 'tanh': [400., -400., 20.], 'reciprocal': [1e200],
           'square': [1e150, 1e-150], 'erf': [30., -30., 6.], 'erfi': [20.], 'dawsn': [30.], 'expit': [800., -800., 40., -40.],
           'gammaln': [1e10, 1e100], 'psi': [1e10], 'polygamma1': [1e5], 'pow_real_2.5': [1e100], 'pow_int_3': [1e100, 1e-100], 'pow_negint_3': [1e90]}
# (no tiny arguments for functions singular at 0: the reference differentiates numerically with steps larger than the distance to the singularity)


def _pow_coeffs(r):
    return lambda x0, n: [mp.binomial(r, k) * mp.mpf(x0) ** (mp.mpf(r) - k) for k in range(n + 1)]


def _log_coeffs(x0, n):
    x0 = mp.mpf(x0)
    return [mp.log(x0)] + [(-1) ** (k - 1) / (k * x0 ** k) for k in range(1, n + 1)]


# closed-form Taylor coefficients f^(k)(x0)/k! for functions singular at 0, used at tiny arguments where numerical differentiation
# of the mpmath function (steps larger than the distance to the singularity) is not a valid reference
CLOSED = {'log': _log_coeffs, 'sqrt': _pow_coeffs(mp.mpf(1) / 2), 'reciprocal': _pow_coeffs(-1), 'pow_real_2.5': _pow_coeffs(mp.mpf(5) / 2),
          'pow_real_0.5': _pow_coeffs(mp.mpf(1) / 2), 'pow_real_-1.5': _pow_coeffs(mp.mpf(-3) / 2), 'pow_negint_3': _pow_coeffs(-3), 'pow_negint_1': _pow_coeffs(-1)}
TINY = {'log': [1e-30, 1e-200], 'sqrt': [1e-30, 1e-200], 'reciprocal': [1e-30], 'pow_real_2.5': [1e-30], 'pow_real_0.5': [1e-30], 'pow_real_-1.5': [1e-30],
        'pow_negint_3': [1e-20], 'pow_negint_1': [1e-30, -1e-30]}


def extreme_cases(tier, seed):
    out = []
    for name, pts in list(EXTREME.items()) + list(TINY.items()):
        for x0 in pts:
            for D in (1, 2, 3):
                s = case_seed('C01', seed, 'extreme', name, x0, D)
                out.append({'kind': 'extreme', 'seed': s, 'params': {'fn': name, 'x0': x0, 'D': D, 'entry': int(np.random.default_rng(s).integers(12))}})
    return out


def _extreme(ctx, p, rng):
    name, x0, D = p['fn'], p['x0'], p['D']
    t = T()[name]
    ents = sorted(t['entries'].items())
    ename, f = ents[p['entry'] % len(ents)]
    data = np.zeros((D, 2, 2))
    data[0] = x0 * np.array([[1.0, 1.0 + 1e-3], [1.0 - 1e-3, 1.0]])
    if D > 1:
        data[1:] = 0.5 * rng.normal(size=(D - 1, 2, 2))
    try:
        with np.errstate(all='ignore'):
            y = _unwrap(f(UTPM(data.copy())), D, 2, (2,))
    except Exception as e:
        if ename == 'npy':
            ctx.skip('unsupported:numpy-dispatch:' + name); return
        ctx.violation('%s:extreme-argument:raises' % name, {'fn': name, 'entry': ename, 'x0': x0, 'error': repr(e)[:200]}); return
    if y is None or y.shape != data.shape:
        ctx.violation('%s:extreme-argument:shape' % name, {'fn': name, 'entry': ename, 'x0': x0}); return
    compared = 0
    for pp in range(2):
        for el in range(2):
            xs = list(data[:, pp, el])
            try:
                if name in CLOSED and abs(xs[0]) < 1e-3:
                    fk = CLOSED[name](xs[0], D - 1)
                    xm = [O.num(v) for v in xs]
                    ref = O.compose(fk, xm); maj = O.compose([abs(v) for v in fk], [abs(v) for v in xm])
                else:
                    ref, maj = O.series(t['mp'], xs)
            except Exception:
                ctx.skip('reference-unavailable:extreme:' + name); return
            for d in range(D):
                if not maj[d] < mp.mpf('1e290'):
                    continue          # the exact coefficient is not representable
                compared += 1
                g = y[d, pp, el]
                tau = TAU_FN.get(name.split('_')[0], TAU)
                # beyond the usual majorant scale an absolute floor relative to the function value: where f' underflows against f
                # (tanh(20) = 1 - 8e-18) a recurrence in y cannot resolve it, and the statement does not ask for that
                floor = mp.mpf('1e-14') * max(1, abs(ref[0])) * (1 + max(abs(v) for v in xs[1:] + [0])) ** d
                if not np.isfinite(g) or not abs(O.num(g) - ref[d]) <= tau * maj[d] + floor:
                    ctx.violation('%s:extreme-argument:%s' % (name, 'd0' if d == 0 else 'd>=1'),
                                  {'fn': name, 'entry': ename, 'x0': float(xs[0]), 'order': d, 'got': float(g), 'want': mp.nstr(ref[d], 17), 'x': [float(v) for v in xs]}); return
    if compared:
        ctx.ok('extreme-argument', ('extreme', name, x0, D, ename))
    else:
        ctx.skip('extreme:nothing-representable:' + name)


REQUIRED = None


def required():
    return list(T().keys()) + PIECEWISE + SPECIAL2


def _unwrap(y, D, P, shape):
    """numpy ufunc dispatch returns an object array of scalar UTPMs for shape != ()"""
    if isinstance(y, UTPM):
        return y.data
    if isinstance(y, np.ndarray) and y.dtype == object:
        out = None
        for idx in np.ndindex(y.shape):
            e = y[idx]
            if not isinstance(e, UTPM):
                return None
            if out is None:
                out = np.zeros((D, P) + y.shape, dtype=e.data.dtype)
            out[(slice(None), slice(None)) + idx] = e.data
        return out
    return None


def _elements(shape, rng, maxn=4):
    idx = list(np.ndindex(*shape)) if shape else [()]
    if len(idx) > maxn:
        sel = rng.choice(len(idx), size=maxn, replace=False)
        idx = [idx[i] for i in sel]
    return idx


def run_case(ctx, case):
    p = case['params']
    rng = gen.rng_of(case)
    if case['kind'] == 'extreme':
        return _extreme(ctx, p, rng)
    if case['kind'] == 'hyperu_poly':
        return _hyperu_poly(ctx, p, rng)
    if case['kind'] == 'abs_complex':
        return _abs_complex(ctx, p, rng)
    name, D, P, shape, pat = p['fn'], p['D'], p['P'], tuple(p['shape']), p['pattern']
    if name in PIECEWISE:
        return _piecewise(ctx, p, rng)
    if name == 'pow_utpm':
        return _pow_utpm(ctx, p, rng)
    t = T()[name]
    cplx = bool(p['cplx']) and t['cdom'] is not None
    dom = t['cdom'] if cplx else t['dom']
    data = gen.series_data(rng, D, P, shape, dom, pat, cplx)
    if pat == 'big' and D > 6:
        # recurrences that divide by x_0 amplify rounding like (|x_k|/|x_0|)^d: keep |x_k| <= 3 at high order (guard of section 2.4)
        data[1:] *= 0.1
    if not cplx and dom in ('R', 'unit', 'gtm1', 'tan', 'small') and (p['entry'] + D) % 5 == 0 and not name.startswith(('hyperu', 'polygamma', 'psi', 'gammaln', 'pow')):
        # the base point exactly 0 (in every element and direction), where the function is smooth: sign(0) = 0 and 0 * x are
        # favourite shortcuts of rewritten kernels (powers at a vanishing base are C02's, with an exact reference: numerical
        # differentiation of z**12 at 0 leaves 1e-177 of noise where the exact coefficient is 0)
        data[0] = 0.0
    single = bool(p.get('single')) and not name.startswith(('hyperu', 'polygamma', 'psi', 'gammaln'))
    if single:
        # single precision (float32 / complex64) polynomials: the result must carry the same information, to single accuracy
        data = data.astype(np.complex64 if cplx else np.float32)
    ents = sorted(t['entries'].items())
    ename, f = ents[p['entry'] % len(ents)]
    layout = p.get('layout', 'C')
    x = UTPM(gen.relayout(data, layout))
    if rng.random() < 0.5:
        # the operand object has a past: it held other coefficients when a related function (same domain: sin before cos, exp
        # before expm1, ...) was evaluated on it, and was then updated in place to the data of this case
        sibs = sorted(k for k, v in T().items() if (v['cdom'] if cplx else v['dom']) == dom and k not in PIECEWISE and k != 'pow_utpm')
        sib = {'sin': 'cos', 'cos': 'sin', 'sinh': 'cosh', 'cosh': 'sinh', 'tan': 'cos'}.get(name) if rng.random() < 0.5 else None
        if sib not in sibs:
            sib = sibs[int(rng.integers(len(sibs)))]
        x.data[...] = gen.series_data(rng, D, P, shape, dom, 'random', cplx)
        try:
            sorted(T()[sib]['entries'].items())[0][1](x)
        except Exception:
            pass
        x.data[...] = data
    try:
        y = f(x)
    except Exception as e:
        if cplx and isinstance(e, TypeError):
            ctx.skip('unsupported:complex:' + name)
            return
        if ename == 'npy':
            ctx.skip('unsupported:numpy-dispatch:' + name)
            return
        ctx.violation('%s:raises:%s:%s' % (name, ename, type(e).__name__),
                      {'fn': name, 'entry': ename, 'error': repr(e)[:300]})
        return
    yd = _unwrap(y, D, P, shape)
    cls = (name, D, P, shape, 'c' if cplx else 'r', pat, ename, layout)
    if yd is None or yd.shape != data.shape:
        ctx.violation('%s:shape:%s' % (name, ename), {'fn': name, 'entry': ename, 'got_type': type(y).__name__,
                                                        'got_shape': getattr(yd, 'shape', None), 'want': data.shape})
        return
    if not np.array_equal(x.data, data):
        ctx.violation('%s:argument-modified' % name, {'fn': name, 'entry': ename})
    worst = 0.0
    dirs = range(P) if P <= 5 else sorted({0, P - 1, 31, 32} | {int(v) for v in rng.choice(P, 2, replace=False)})      # many directions: first, last, around 32, two more
    for pp in dirs:
        for idx in _elements(shape, rng, 2 if name.startswith('hyperu') else 4):
            xs = data[(slice(None), pp) + idx]
            ref, maj = O.series(t['mp'], list(xs))
            # a floor relative to the largest coefficient scale: where the majorant of one order vanishes structurally (expit at 0 along
            # an odd curve: f'' = f'''' = 0 and x_2 = x_4 = 0) the recurrences still add and subtract terms of the size of the neighbouring
            # orders, and leave their rounding (1e-17) behind
            mfloor = max(maj) * mp.mpf('1e-3')
            maj = [m_ + mfloor for m_ in maj]
            got = yd[(slice(None), pp) + idx]
            if cplx and not np.iscomplexobj(yd):
                # the imaginary part was dropped: compare as is (the reference is complex)
                pass
            e = O.err_over_maj(list(got), ref, maj)
            worst = max(worst, e)
            tau = TAU_FN.get(name.split('_')[0], TAU) if not single else 3e-4
            if not (e <= tau):
                d_bad = next(d for d in range(D) if not abs(O.num(got[d]) - ref[d]) <= tau * (maj[d] + mp.mpf(10) ** -280))
                ctx.violation('%s:coeff:%s:%s' % (name, 'complex' if cplx else 'real', 'd0' if d_bad == 0 else 'd>=1'),
                              {'fn': name, 'entry': ename, 'D': D, 'P': P, 'shape': shape, 'layout': layout, 'direction': pp, 'element': idx,
                               'first_bad_order': d_bad, 'got': complex(got[d_bad]) if cplx else float(np.real(got[d_bad])),
                               'want': str(mp.nstr(ref[d_bad], 17)), 'err_over_majorant': e, 'x': [complex(v) if cplx else float(v) for v in xs]})
                return
    # same object, data updated in place, evaluated again: the result must follow the new data (no state leaks between calls)
    data2 = gen.series_data(rng, D, P, shape, dom, 'random', cplx)
    how = int(rng.integers(3))
    if how == 0:
        x.data[...] = data2
    elif how == 1:
        x += UTPM(data2 - x.data)
    else:
        x[...] = UTPM(data2.copy())
    data2 = np.array(x.data, copy=True)          # what the object holds now (single precision objects round the update)
    try:
        y2 = _unwrap(f(x), D, P, shape)
    except Exception as e:
        ctx.violation('%s:raises-on-second-call' % name, {'fn': name, 'entry': ename, 'error': repr(e)[:200]}); return
    pp = int(rng.integers(P)); idx = _elements(shape, rng, 1)[0]
    ref, maj = O.series(t['mp'], list(data2[(slice(None), pp) + idx]))
    e2 = O.err_over_maj(list(y2[(slice(None), pp) + idx]), ref, maj) if y2 is not None and y2.shape == data2.shape else float('inf')
    if not e2 <= (TAU_FN.get(name.split('_')[0], TAU) if not single else 3e-4):
        ctx.violation('%s:stale-result-after-inplace-update' % name, {'fn': name, 'entry': ename, 'D': D, 'P': P, 'shape': shape, 'update': ['data[...]=', '+=', 'x[...]='][how],
                                                                      'err_over_majorant': e2}); return
    ctx.ok(name, cls, noise=worst,
           sample={'fn': name, 'entry': ename, 'D': D, 'P': P, 'shape': shape, 'complex': cplx, 'pattern': pat,
                   'x[:,0,first]': [str(v) for v in data[(slice(None), 0) + (tuple(0 for _ in shape))][:3]],
                   'max_err_over_majorant': worst} if rng.random() < 0.02 else None)


def _hyperu_poly(ctx, p, rng):
    n, b, D = p['n'], p['b'], p['D']
    mf = lambda z: mp.hyperu(-n, b, z)
    root = b + n - 1.0                                  # the (n-1)-th derivative of the degree-n polynomial vanishes here
    for label, base in (('all-on-the-root', np.array([root, root])), ('one-on-the-root', np.array([root, root + 0.75]))):
        for P in (1, 2):
            data = np.zeros((D, P, 2))
            data[0] = base
            data[1:] = np.round(rng.normal(size=(D - 1, P, 2)), 3)
            for ename, f in (('glob', lambda x: algopy.special.hyperu(-n, b, x)), ('meth', lambda x: UTPM.hyperu(-n, b, x)), ('float-a', lambda x: UTPM.hyperu(float(-n), b, x))):
                try:
                    y = f(UTPM(data.copy()))
                except Exception as e:
                    ctx.violation('hyperu:polynomial-case:raises', {'a': -n, 'b': b, 'D': D, 'entry': ename, 'error': repr(e)[:200]}); return
                for pp in range(P):
                    for i in range(2):
                        ref, maj = O.series(mf, list(data[:, pp, i]))
                        e = O.err_over_maj(list(y.data[:, pp, i]), ref, maj)
                        if not (e <= 1e-7):
                            ctx.violation('hyperu:polynomial-case:coeff:%s' % label, {'a': -n, 'b': b, 'D': D, 'P': P, 'entry': ename, 'x0': float(data[0, pp, i]),
                                          'got': [float(v) for v in y.data[:, pp, i]], 'want': [float(v) for v in ref], 'err_over_majorant': e}); return
            ctx.ok('hyperu', ('hyperu_poly', n, b, D, P, label))


def _abs_complex(ctx, p, rng):
    D, P, shape, entry = p['D'], p['P'], tuple(p['shape']), p['entry']
    data = gen.series_data(rng, D, P, shape, 'nz', 'random', True)      # |x0| >= 0.4: away from the kink at 0
    data = data * p.get('scale', 1.0)          # huge and tiny magnitudes: |x_0|^2 is not representable, |x_0| is
    x = UTPM(data.copy())
    ename = ['algopy.absolute', 'UTPM.absolute', 'abs()', 'fabs', 'algopy.sign', 'x.sign()'][entry]
    is_sign = entry >= 4
    try:
        y = [lambda: algopy.absolute(x), lambda: UTPM.absolute(x), lambda: abs(x), lambda: x.fabs(), lambda: algopy.sign(x), lambda: x.sign()][entry]()
    except Exception as e:
        ctx.violation('absolute:complex:raises', {'entry': ename, 'error': repr(e)[:200]}); return
    if not isinstance(y, UTPM) or y.data.shape != data.shape:
        ctx.violation('absolute:complex:shape', {'entry': ename, 'got': getattr(getattr(y, 'data', None), 'shape', None), 'want': data.shape}); return
    worst = 0.0
    for pp in range(P):
        for idx in _elements(shape, rng, 3):
            # the reference is computed for x / scale (|.| is homogeneous of degree 1, sign of degree 0): numerical differentiation of
            # sqrt at 1e400 would need 400 digits
            sc = mp.mpf(p.get('scale', 1.0))
            xs = [O.num(complex(v)) / sc for v in data[(slice(None), pp) + idx]]
            sq = O.mul(xs, [mp.conj(v) for v in xs])
            sq = [mp.re(v) for v in sq]
            msq = O.mul([abs(v) for v in xs], [abs(v) for v in xs])
            if is_sign:
                # numpy.sign(z) = z / |z| (NumPy 2): x(t) (x conj x)^(-1/2)
                fk = O.taylor_coeffs(lambda z: 1 / mp.sqrt(z), sq[0], D - 1)
                inv = O.compose(fk, sq); minv = O.compose([abs(v) for v in fk], [abs(sq[0])] + msq[1:])
                ref = O.mul(xs, inv); maj = O.mul([abs(v) for v in xs], minv)
            else:
                fk = O.taylor_coeffs(mp.sqrt, sq[0], D - 1)
                ref = O.compose(fk, sq)
                maj = O.compose([abs(v) for v in fk], [abs(sq[0])] + msq[1:])
            if not is_sign:
                ref = [v * sc for v in ref]; maj = [v * sc for v in maj]
            got = y.data[(slice(None), pp) + idx]
            e = O.err_over_maj(list(got), ref, maj)
            worst = max(worst, e)
            if not e <= TAU:
                ctx.violation('%s:complex:coeff' % ('sign' if is_sign else 'absolute'), {'entry': ename, 'D': D, 'P': P, 'shape': shape, 'err_over_majorant': e, 'scale': p.get('scale', 1.0),
                                                         'x': [str(complex(v)) for v in data[(slice(None), pp) + idx]][:4],
                                                         'got': [str(complex(v)) for v in got][:4], 'want': [str(complex(v)) for v in ref][:4]}); return
    ctx.ok('absolute', ('abs_complex', D, P, shape, entry), noise=worst)


def _piecewise(ctx, p, rng):
    name, D, P, shape, pat = p['fn'], p['D'], p['P'], tuple(p['shape']), p['pattern']
    data = gen.series_data(rng, D, P, shape, 'nz', pat, False)      # |x0| >= 0.4: away from the kink at 0
    x = UTPM(data.copy())
    sg = np.sign(data[0])
    ename = 'glob'
    try:
        if name == 'absolute':
            y = [algopy.absolute(x), UTPM.absolute(x)][p['entry'] % 2]; ref = data * sg
        elif name == 'abs':
            y = abs(x); ref = data * sg
        elif name == 'fabs':
            y = x.fabs(); ref = data * sg
        elif name == 'sign':
            y = [algopy.sign(x), x.sign()][p['entry'] % 2]; ref = np.zeros_like(data); ref[0] = sg
        elif name in ('minimum', 'maximum'):
            d2 = gen.series_data(rng, D, P, shape, 'nz', 'random', False)
            d2[0] = data[0] + rng.choice([-1.0, 1.0], size=data[0].shape) * rng.uniform(0.2, 1.0, size=data[0].shape)
            d2 *= [1.0, 1e17, 1e-17, 1e300][(p['entry'] // 2) % 4]          # operands of very different magnitude: the selected one comes back exactly
            z = UTPM(d2.copy())
            form = int(rng.integers(8))
            if form >= 6:
                # a constant array with MORE axes than the polynomial (NumPy broadcasts x_0 against it): leading axis of length 2, 3
                # or P (a length that could be mistaken for the direction axis); |c| <= 0.15 < 0.4 <= |x_0|: no tie
                k = [2, 3, P][int(rng.integers(3))]
                c = (0.05 * (1 + np.arange(k * int(np.prod(shape, dtype=int))) % 3) * rng.choice([-1.0, 1.0], size=k * int(np.prod(shape, dtype=int)))).reshape((k,) + tuple(shape))
                y = getattr(algopy, name)(x, c) if form == 6 else getattr(algopy, name)(c, x)
                data = np.broadcast_to(data.reshape((D, P, 1) + tuple(shape)), (D, P, k) + tuple(shape)).copy()
                d2 = np.zeros_like(data); d2[0] = c
            elif form == 1:
                # a constant second operand (maximum(x, 0.): |x_0| >= 0.4, no tie), also as the first operand
                c = [0.0, 0, np.float64(0.1), -0.25][int(rng.integers(4))]
                d2 = np.zeros_like(data); d2[0] = c
                y = getattr(algopy, name)(x, c) if rng.random() < 0.5 else getattr(algopy, name)(c, x)
            elif form == 2:
                # a constant array: the base values of the other operand, higher coefficients zero
                d2[1:] = 0
                y = getattr(algopy, name)(x, d2[0, 0].copy()) if P == 1 or np.all(d2[0] == d2[0, :1]) else getattr(algopy, name)(x, z)
                if not (P == 1 or np.all(d2[0] == d2[0, :1])):
                    d2 = z.data.copy()
            elif form == 3 and shape:
                # operands of different but broadcastable shapes: a scalar polynomial against an array-valued one
                zs = gen.series_data(rng, D, P, (), 'nz', 'random', False)
                zs[0] = 0.05 * np.sign(zs[0])                       # |x_0| >= 0.4 > 0.05: no tie
                d2 = np.broadcast_to(zs.reshape((D, P) + (1,) * len(shape)), data.shape).copy()
                y = getattr(algopy, name)(x, UTPM(zs.copy())) if rng.random() < 0.5 else getattr(algopy, name)(UTPM(zs.copy()), x)
            else:
                y = getattr(algopy, name)(x, z)
            pick = (data[0] <= d2[0]) if name == 'minimum' else (data[0] >= d2[0])
            ref = np.where(pick, data, d2)
        else:
            if name == 'clip_in':
                lo, hi = [(-3.0, 3.0), (-3.0, np.inf), (-np.inf, 3.0), (-np.inf, np.inf)][(p['entry'] // 2) % 4]          # open sides
            else:
                lo, hi = (0.1, 0.3) if p['entry'] % 2 else (-0.3, -0.1)   # every |x0|>=0.4 is outside (on either side)
                if (p['entry'] // 2) % 3 == 1:
                    lo, hi = (0.1, np.inf) if lo > 0 else (-np.inf, -0.1)          # one open side: inside where beyond the finite bound on the open side
            if shape and (p['entry'] // 4) % 3 == 2:
                # one interval per element (numpy.clip accepts array bounds; also as a list, or one of them an array): some elements
                # inside their own interval, others outside it but inside the envelope [min lo, max hi]
                mid = rng.uniform(-2.5, 2.5, size=shape)
                lo, hi = mid - 0.6, mid + 0.6
                k = int(rng.integers(4))
                if k == 1:
                    lo, hi = lo.tolist(), hi.tolist()
                elif k == 2:
                    lo = float(np.min(lo)) - 1.0
                elif k == 3:
                    hi = float(np.max(hi)) + 1.0
            y = [algopy.special.botched_clip(lo, hi, x), UTPM.botched_clip(lo, hi, x)][p['entry'] % 2]
            lo, hi = np.asarray(lo), np.asarray(hi)
            inside = (data[0] >= lo) & (data[0] <= hi)
            ref = data * inside
            ref[0] = np.clip(data[0], lo, hi)
    except Exception as e:
        ctx.violation('%s:raises:%s' % (name, type(e).__name__), {'fn': name, 'error': repr(e)[:300]})
        return
    if not isinstance(y, UTPM) or y.data.shape != ref.shape:
        ctx.violation('%s:shape' % name, {'fn': name, 'got': getattr(getattr(y, 'data', None), 'shape', None), 'want': ref.shape})
        return
    err = np.max(np.abs(y.data - ref) / (np.abs(ref) + np.abs(data) + 1e-300))
    if not err <= 1e-14:
        bad = np.argwhere(~(np.abs(y.data - ref) <= 1e-14 * (np.abs(ref) + np.abs(data) + 1e-300)))[0]
        ctx.violation('%s:coeff:%s' % (name, 'd0' if bad[0] == 0 else 'd>=1'),
                      {'fn': name, 'D': D, 'P': P, 'shape': shape, 'index': [int(v) for v in bad],
                       'got': float(y.data[tuple(bad)]), 'want': float(ref[tuple(bad)])})
        return
    ctx.ok(name, (name, D, P, shape, pat, p['entry'] % 2), noise=err)


def _pow_utpm(ctx, p, rng):
    D, P, shape, pat = p['D'], p['P'], tuple(p['shape']), p['pattern']
    xd = gen.series_data(rng, D, P, shape, 'pos', pat, False)
    yd = gen.series_data(rng, D, P, shape, 'R', 'random', False)
    try:
        z = UTPM(xd.copy()) ** UTPM(yd.copy())
    except Exception as e:
        ctx.violation('pow_utpm:raises:%s' % type(e).__name__, {'error': repr(e)[:300]})
        return
    worst = 0.0
    for pp in range(P):
        for idx in _elements(shape, rng, 3):
            xs = [O.num(v) for v in xd[(slice(None), pp) + idx]]
            ys = [O.num(v) for v in yd[(slice(None), pp) + idx]]
            lx, mlx = O.series(mp.log, xs)
            w = O.mul(ys, lx); mw = O.mul([abs(v) for v in ys], mlx)
            ek = O.taylor_coeffs(mp.exp, w[0], D - 1)
            ref = O.compose(ek, w)
            maj = O.compose([abs(v) for v in ek], [abs(mw[0])] + mw[1:])
            got = z.data[(slice(None), pp) + idx]
            e = O.err_over_maj(list(got), ref, maj)
            worst = max(worst, e)
            if not e <= TAU:
                ctx.violation('pow_utpm:coeff', {'D': D, 'P': P, 'shape': shape, 'err_over_majorant': e,
                                                 'x': [float(v) for v in xs], 'y': [float(v) for v in ys]})
                return
    ctx.ok('pow_utpm', ('pow_utpm', D, P, shape, pat), noise=worst)


def finish(ctx):
    from .. import core
    return core.finish(ctx, required(), RULE, assumptions=ASSUMPTIONS)
