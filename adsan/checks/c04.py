"""C04 - graph derivative drivers return the derivatives at the requested point.
Monitor: return value of the eight CGraph drivers.  Oracles (AD-free where possible): exact rational partial
derivatives of polynomial programs (O-Q), Taylor expansion of Jacobian entries along a curve by exact series
arithmetic; for general programs the forward-mode drivers (validated by C09) on the same program."""
import math
from fractions import Fraction
import numpy as np
import algopy
from algopy import UTPM, CGraph, Function
from ..core import case_seed
from .. import gen, progs, polyprog as PP, qser as Q
from .c06 import vector_programs, wrap, scalarize

PID = 'C04'
TAU = 1e-9
RULE = ('polynomial programs R^N -> R^M (N,M <= 5) recorded at x_r with operand kind {float ndarray, int ndarray, UTPM(1,1), '
        'UTPM(3,2)}, drivers evaluated at x_r and at 3 other points (integer and real) with random and unit vectors v, w; '
        'results compared with exact rational derivatives (1e-9 x sum of absolute term values); jacobian(UTPM) compared entry '
        'by entry with the exact Taylor expansion along the curve; catalogue programs (incl. buffers, factorizations) and random '
        'compositions (intermediate values <= 1e6) compared with the forward-mode drivers, with float and integer-typed (int64/int32/int16, lists) arguments; gradient with a list of arrays for every catalogue program with several inputs; class = (driver, program kind, recording kind, evaluation at/away '
        'from the recording point); non-trivial = evaluation point != recording point')
ASSUMPTIONS = ['exact Fraction arithmetic for polynomial programs', 'forward-mode drivers are validated independently by C09',
               'drivers that reject a shape by an explicit ValueError are counted as unsupported']
DRIVERS = ['gradient', 'jacobian', 'hessian', 'jac_vec', 'vec_jac', 'hess_vec', 'vec_hess', 'vec_hess_vec', 'jacobian_utpm']
REQUIRED = ['poly:' + d for d in DRIVERS] + ['prog:' + d for d in DRIVERS if d != 'jacobian_utpm'] + ['prog:gradient-list'] + ['wide:' + d for d in ('jacobian', 'jac_vec', 'vec_jac', 'gradient', 'hessian', 'hess_vec', 'vec_hess')] + ['listrec']
RECS = ['float', 'int', 'utpm11', 'utpm32']
RECS_POLY = RECS + ['list']


def cases(tier, seed):
    out = []
    reps = 2 if tier == 'quick' else 100
    for rep in range(reps):
        for N in (1, 2, 3, 5):
            for M in (1, N, 2 if N != 2 else 4):
                for rec in RECS:
                    out.append({'kind': 'poly', 'seed': case_seed('C04', seed, 'poly', N, M, rec, rep), 'params': {'N': N, 'M': M, 'rec': rec}})
    for (name, shape, dom, f) in vector_programs():
        for rep in range(1 if tier == 'quick' else 12):
            out.append({'kind': 'prog', 'seed': case_seed('C04', seed, name, rep), 'params': {'prog': name, 'rec': RECS[(rep + len(name)) % 4]}})
    for i in range(60 if tier == 'quick' else 20000):
        out.append({'kind': 'prog', 'seed': case_seed('C04', seed, 'comp', i), 'params': {'prog': 'comp', 'rec': RECS[i % 4]}})
    for i in range(6 if tier == 'quick' else 120):
        out.append({'kind': 'listrec', 'seed': case_seed('C04', seed, 'listrec', i), 'params': {'N': 1 + i % 3, 'first': ['jacobian', 'vec_jac', 'jac_vec', 'gradient', 'hessian', 'hess_vec'][i % 6]}})
    # many dependents / many independents (a residual vector of a fit, a discretised field): sizes beyond any block a driver may use
    for k, (N, M) in enumerate([(3, 65), (4, 130), (70, 2), (3, 64), (130, 1)] if tier == 'quick' else
                               [(3, 65), (4, 130), (70, 2), (3, 64), (130, 1), (2, 257), (5, 300), (260, 3), (33, 33), (1, 1025)]):
        out.append({'kind': 'wide', 'seed': case_seed('C04', seed, 'wide', N, M), 'params': {'N': N, 'M': M, 'rec': RECS[k % 4]}})
    for pr in progs.cat():
        if len(pr.ins) >= 2 and not ({'refused', 'nopb', 'fancy', 'augmented', 'nonunique'} & pr.tags) and pr.name not in ('dot:TM', 'dot:MT'):
            for rep in range(1 if tier == 'quick' else 10):
                out.append({'kind': 'gradlist', 'seed': case_seed('C04', seed, 'gradlist', pr.name, rep), 'params': {'prog': pr.name, 'rec': RECS[(rep + len(pr.name)) % 4]}})
    return out


def _gradlist(ctx, p, rng):
    """gradient with a list of arrays (one per independent, any shape) of a program with several inputs, away from the
    recording point; reference: forward mode with one direction per input element"""
    pr = progs.by_name(p['prog'])
    base = pr.base_inputs(rng)
    if p['rec'] == 'int':
        p = dict(p, rec='float')
    try:
        yshape = np.shape(pr.f(*[np.array(b, dtype=float) for b in base]))
    except Exception:
        ctx.skip('forward-unsupported:' + pr.name); return
    W = np.round(rng.uniform(0.5, 1.5, size=yshape), 2)
    fs = lambda *a: algopy.sum(pr.f(*a) * W)
    try:
        cg, _ = progs.record(fs, [_rec_operand(p['rec'], b, rng) for b in base])
    except Exception:
        ctx.skip('not-traceable:%s:%s' % (pr.name, p['rec'])); return
    for ip in range(2):
        xs = [np.array(b, dtype=float) for b in (base if ip == 0 else pr.base_inputs(rng))]
        if not pr.in_domain(xs):
            ctx.skip('out_of_domain:regularity-condition'); continue
        # forward reference: all partial derivatives at once, one direction per element of every input
        n = [int(np.prod(x.shape, dtype=int)) for x in xs]; Pn = sum(n)
        zs = []; off = 0
        for x, k in zip(xs, n):
            d = np.zeros((2, Pn) + x.shape); d[0] = x
            for j in range(k):
                d[1].reshape(Pn, -1)[off + j, j] = 1.0
            off += k; zs.append(UTPM(d))
        try:
            ref = fs(*zs).data[1]
        except Exception:
            ctx.skip('forward-drivers-unsupported:' + pr.name); return
        if not np.all(np.isfinite(ref)) or np.max(np.abs(ref)) > 1e6:
            ctx.skip('out_of_domain:ill-conditioned'); continue
        try:
            got = cg.gradient([x.copy() for x in xs])
        except Exception as e:
            ctx.violation('prog:gradient-list:%s:raises' % pr.name, {'program': pr.name, 'rec': p['rec'], 'error': repr(e)[:200]}); return
        sc = np.max(np.abs(ref)) + 1e-5
        off = 0; bad = None
        if not isinstance(got, list) or len(got) != len(xs):
            ctx.violation('prog:gradient-list:%s:result-structure' % pr.name, {'program': pr.name, 'got': type(got).__name__}); return
        for i_, (g, x, k) in enumerate(zip(got, xs, n)):
            g = np.asarray(g)
            if g.shape != x.shape:
                bad = ('shape', i_, g.shape, x.shape); break
            if k and not np.max(np.abs(g.reshape(-1) - ref[off:off + k])) <= 1e-9 * sc:
                bad = ('value', i_, float(np.max(np.abs(g.reshape(-1) - ref[off:off + k])) / sc)); break
            off += k
        if bad:
            ctx.violation('prog:gradient-list:%s:%s' % (pr.name, bad[0]), {'program': pr.name, 'rec': p['rec'], 'where': 'at-recording-point' if ip == 0 else 'away', 'input': bad[1], 'detail': repr(bad[2:])}); return
        ctx.ok('prog:gradient-list', ('gradlist', pr.name, p['rec'], ip))


def _dup(rng, cg):
    """the graph the drivers are called on: the recorded object itself, a deep copy of it, or what comes back from a pickle round
    trip (a graph sent to a worker); a duplicate is a recorded graph of the same program"""
    import copy, pickle
    k = int(rng.integers(4))
    try:
        if k == 2:
            return copy.deepcopy(cg)
        if k == 3:
            return pickle.loads(pickle.dumps(cg))
    except Exception:
        pass
    return cg


def _rec_operand(kind, x, rng):
    if kind == 'list':
        return [float(v) for v in np.ravel(x)]          # a Python list of floats, as in the docstring of CGraph.gradient
    if kind == 'float':
        return np.array(x, dtype=float)
    if kind == 'int':
        return np.array(np.round(x), dtype=int)
    if kind == 'utpm11':
        return UTPM(np.array(x, dtype=float).reshape((1, 1) + np.shape(x)))
    d = 0.3 * rng.normal(size=(3, 2) + np.shape(x)); d[0] = x
    return UTPM(d)


def _cmp(ctx, mech, got, ref, scale, info, tau=TAU):
    got = np.asarray(got)
    ref = np.asarray(ref, dtype=float); scale = np.asarray(scale, dtype=float)
    if got.shape != ref.shape:
        ctx.violation(mech + ':shape', dict(info, got=got.shape, want=ref.shape)); return False
    err = np.abs(got - ref) / (scale + 1e-300)
    if not np.all(err <= tau):
        i = np.unravel_index(int(np.argmax(err)), err.shape) if err.shape else ()
        ctx.violation(mech + ':value', dict(info, index=list(i), got=float(got[i]), want=float(ref[i]), err_over_scale=float(np.max(err)))); return False
    return True


def run_case(ctx, case):
    rng = gen.rng_of(case)
    if case['kind'] == 'poly':
        return _poly(ctx, case['params'], rng)
    if case['kind'] == 'gradlist':
        return _gradlist(ctx, case['params'], rng)
    if case['kind'] == 'wide':
        return _wide(ctx, case['params'], rng)
    if case['kind'] == 'listrec':
        return _listrec(ctx, case['params'], rng)
    return _prog(ctx, case['params'], rng)


def _listrec(ctx, p, rng):
    """the graph is recorded as in the docstring of CGraph.gradient - the independent is a Python list of floats, so the recorded
    values are Python floats - and a driver is called on the FRESH graph (each driver in turn is the first call)"""
    N, first = p['N'], p['first']
    poly = PP.random_poly(rng, N, 4, 4)
    xr = np.round(rng.normal(size=N), 2)
    try:
        cg = algopy.CGraph()
        x = algopy.Function([float(v) for v in xr])
        y = PP.evaluate(algopy, [poly], x, 1)                    # scalar: plain arithmetic on the entries x[i]
        cg.trace_off()
        cg.independentFunctionList = [x]; cg.dependentFunctionList = [y]
    except Exception:
        ctx.skip('not-traceable:listrec'); return
    if not isinstance(y, algopy.Function):
        ctx.skip('degenerate-program (the generated polynomial is identically zero)'); return
    x1 = np.round(rng.normal(size=N), 3); xq = [Fraction(float(v)) for v in x1]
    g = np.array([_fl(poly.diff(i)(xq)) for i in range(N)]); ga = np.array([_fl(poly.diff(i).absval(xq)) for i in range(N)]) + 1e-12
    H = np.array([[_fl(poly.diff(i).diff(j)(xq)) for j in range(N)] for i in range(N)]); Ha = np.max(np.abs(H)) + np.max(ga)
    v = np.round(rng.normal(size=N), 2)
    calls = {'jacobian': (lambda: np.asarray(cg.jacobian(x1.copy())).reshape(N), g, ga), 'vec_jac': (lambda: np.asarray(cg.vec_jac(np.array([1.0]), x1.copy())).reshape(N), g, ga),
             'jac_vec': (lambda: np.asarray(cg.jac_vec(x1.copy(), v.copy())).reshape(()), g @ v, ga @ np.abs(v)), 'gradient': (lambda: cg.gradient(x1.copy()), g, ga),
             'hessian': (lambda: cg.hessian(x1.copy()), H, np.full((N, N), Ha)), 'hess_vec': (lambda: cg.hess_vec(x1.copy(), v.copy()), H @ v, np.full(N, Ha * (np.sum(np.abs(v)) + 1e-12)))}
    for name in [first] + [k for k in calls if k != first]:
        call, ref, sc = calls[name]
        mech = 'listrec:%s:%s' % (name, 'first-call-on-the-graph' if name == first else 'later-call')
        try:
            got = call()
        except Exception as e:
            ctx.violation(mech + ':raises', {'N': N, 'driver': name, 'error': str(e)[-200:]}); return
        if not _cmp(ctx, mech, got, np.asarray(ref, dtype=float), np.asarray(sc, dtype=float) + 1e-12, {'N': N, 'driver': name}):
            return
        ctx.ok('listrec', ('listrec', name, name == first, N))


def _wide(ctx, p, rng):
    """F(x) = sin(B x) * (C x) + exp(0.1 x_0) with M outputs and N inputs: analytic Jacobian and Hessian of w^T F from NumPy"""
    N, M, rec = p['N'], p['M'], p['rec']
    B = np.round(rng.normal(size=(M, N)), 2); C = np.round(rng.normal(size=(M, N)), 2)

    def F(x):
        return algopy.sin(algopy.dot(B, x)) * algopy.dot(C, x) + algopy.exp(0.1 * x[0])
    xr = rng.integers(-2, 3, size=N).astype(float) if rec == 'int' else np.round(rng.normal(size=N), 2)
    wts = np.round(rng.uniform(0.5, 1.5, size=M), 2)
    try:
        cgv, _ = progs.record(F, [_rec_operand(rec, xr, rng)])
        cgs, _ = progs.record(lambda x: algopy.sum(F(x) * wts), [_rec_operand(rec, xr, rng)])
    except Exception:
        ctx.skip('not-traceable:wide:' + rec); return
    cgv, cgs = _dup(rng, cgv), _dup(rng, cgs)
    for ip in range(2):
        x = xr.copy() if ip == 0 else np.round(rng.normal(size=N), 3)
        where = 'at-recording-point' if ip == 0 else 'away'
        s_, c_, l_ = np.sin(B @ x), np.cos(B @ x), C @ x
        J = (c_ * l_)[:, None] * B + s_[:, None] * C
        J[:, 0] += 0.1 * np.exp(0.1 * x[0])
        Ja = np.abs(B) * np.abs(l_)[:, None] + np.abs(C) + 0.1 * np.exp(0.1 * x[0])

        def hess(w):
            H = np.einsum('m,mi,mj->ij', w * (-s_ * l_), B, B) + np.einsum('m,mi,mj->ij', w * c_, B, C) + np.einsum('m,mi,mj->ij', w * c_, C, B)
            H[0, 0] += np.sum(w) * 0.01 * np.exp(0.1 * x[0])
            return H
        v = np.round(rng.normal(size=N), 2); w = np.round(rng.normal(size=M), 2)
        js = float(np.max(Ja)) + 1e-12; hs = float(np.max(np.abs(B)) * np.max(np.abs(B)) * (1 + np.max(np.abs(l_))) + 2 * np.max(np.abs(B)) * np.max(np.abs(C)) + 1.0)
        info = {'N': N, 'M': M, 'rec': rec, 'where': where}
        rows = sorted({0, M - 1, min(M - 1, 63), min(M - 1, 64), int(rng.integers(M))})
        calls = [('jacobian', lambda: np.asarray(cgv.jacobian(x.copy())).reshape(M, N), J, js),
                 ('jac_vec', lambda: cgv.jac_vec(x.copy(), v.copy()), J @ v, js * np.sum(np.abs(v))),
                 ('vec_jac', lambda: cgv.vec_jac(w.copy(), x.copy()), w @ J, js * np.sum(np.abs(w))),
                 ('gradient', lambda: cgs.gradient(x.copy()), wts @ J, js * np.sum(wts)),
                 ('hessian', lambda: cgs.hessian(x.copy()), hess(wts), hs * np.sum(wts)),
                 ('hess_vec', lambda: cgs.hess_vec(x.copy(), v.copy()), hess(wts) @ v, hs * np.sum(wts) * np.sum(np.abs(v))),
                 ('vec_hess', lambda: cgv.vec_hess(w.copy(), x.copy()), hess(w), hs * np.sum(np.abs(w)))]
        calls += [('vec_jac', (lambda k: (lambda: cgv.vec_jac(np.eye(M)[k], x.copy())))(k), J[k], js) for k in rows]
        for dname, call, ref, sc in calls:
            mech = 'wide:%s:%s' % (dname, where)
            try:
                got = call()
            except Exception as e:
                ctx.violation(mech + ':raises', dict(info, driver=dname, error=str(e)[-250:])); return
            ref = np.asarray(ref, dtype=float)
            if not _cmp(ctx, mech, got, ref, np.full(ref.shape, sc), dict(info, driver=dname), tau=1e-9):
                return
            ctx.ok('wide:' + dname, ('wide', dname, N, M, where))


def _fl(q):
    return float(q)


def _poly(ctx, p, rng):
    N, M, rec = p['N'], p['M'], p['rec']
    polys = [PP.random_poly(rng, N, 4, 4) for _ in range(M)]
    style = int(rng.integers(24))

    def f(x):
        return PP.evaluate(algopy, polys, x, -1 - style)          # always a vector of length M

    def fs(x):
        return PP.evaluate(algopy, polys[:1], x, style)           # scalar
    xr = rng.integers(-2, 3, size=N).astype(float) if rec == 'int' else np.round(rng.normal(size=N), 2)
    try:
        cgv, _ = progs.record(f, [_rec_operand(rec, xr, rng)])
        cgs, _ = progs.record(fs, [_rec_operand(rec, xr, rng)])
    except Exception as e:
        ctx.skip('not-traceable:poly:' + rec); return
    if not all(isinstance(g.dependentFunctionList[0], algopy.Function) for g in (cgv, cgs)):
        ctx.skip('degenerate-program (the generated polynomial is constant: nothing was traced)'); return
    cgv, cgs = _dup(rng, cgv), _dup(rng, cgs)
    pts = [xr.copy()] + [rng.integers(-3, 4, size=N).astype(float), np.round(rng.normal(size=N) * 1.5, 3), np.round(rng.normal(size=N), 3)]
    kept = []          # results handed out earlier must not be changed by later driver calls
    for ip, x in enumerate(pts):
        where = 'at-recording-point' if ip == 0 else 'away'
        xq = [Fraction(float(v)) for v in x]
        v = np.round(rng.normal(size=N), 2) if rng.random() < .7 else np.eye(N)[int(rng.integers(N))]
        w = np.round(rng.normal(size=M), 2) if rng.random() < .7 else np.eye(M)[int(rng.integers(M))]
        vq = [Fraction(float(t)) for t in v]; wq = [Fraction(float(t)) for t in w]
        J = [[polys[m].diff(i) for i in range(N)] for m in range(M)]
        H = [[[polys[m].diff(i).diff(j) for j in range(N)] for i in range(N)] for m in range(M)]
        Jv = np.array([[_fl(J[m][i](xq)) for i in range(N)] for m in range(M)]); Ja = np.array([[_fl(J[m][i].absval(xq)) for i in range(N)] for m in range(M)])
        info = {'N': N, 'M': M, 'rec': rec, 'where': where, 'x': x.tolist(), 'x_rec': xr.tolist()}

        def run(name, call, ref, scale):
            mech = 'poly:%s:%s:%s' % (name, rec, where)
            try:
                got = call()
            except Exception as e:
                ctx.violation(mech + ':raises', dict(info, error=repr(e)[:200])); return False
            if _cmp(ctx, mech, got, ref, scale, info):
                kept.append((name, where, got, np.array(got, copy=True)))
                ctx.ok('poly:' + name, ('poly', name, rec, where, N, M), sample=dict(info, driver=name) if rng.random() < 0.004 else None)
                return True
            return False
        g0 = np.array([_fl(J[0][i](xq)) for i in range(N)]); g0a = np.array([_fl(J[0][i].absval(xq)) for i in range(N)]) + 1e-12
        H0 = np.array([[_fl(H[0][i][j](xq)) for j in range(N)] for i in range(N)]); H0a = np.array([[_fl(H[0][i][j].absval(xq)) for j in range(N)] for i in range(N)])
        hs = np.max(H0a) + 1e-12
        if ip == 1:
            # integer point with integer direction/weights, passed as integer arrays or lists (drivers must compute in floats)
            vi = rng.integers(-3, 4, size=N); wi = rng.integers(-3, 4, size=M)
            xi = x.astype(int)
            Hi = H0 @ vi; sci = np.full(N, hs * (np.sum(np.abs(vi)) + 1))
            ok_i = [run('hess_vec', lambda: cgs.hess_vec(xi, vi), Hi, sci), run('hess_vec', lambda: cgs.hess_vec(xi.tolist(), vi.tolist()), Hi, sci),
                    run('gradient', lambda: cgs.gradient(xi), g0, np.full(N, np.max(g0a))), run('hessian', lambda: cgs.hessian(xi), H0, np.full((N, N), hs)),
                    run('jac_vec', lambda: cgv.jac_vec(xi, vi), Jv @ vi, Ja @ np.abs(vi) + 1e-12), run('vec_jac', lambda: cgv.vec_jac(wi, xi), wi @ Jv, np.abs(wi) @ Ja + 1e-12),
                    run('jacobian', lambda: np.asarray(cgv.jacobian(xi)).reshape(M, N), Jv, np.full((M, N), np.max(Ja) + 1e-12))]
            if not all(ok_i):
                return
        oks = [
            run('gradient', lambda: cgs.gradient(x.copy()), g0, np.full(N, np.max(g0a))),
            run('hessian', lambda: cgs.hessian(x.copy()), H0, np.full((N, N), hs)),
            run('hess_vec', lambda: cgs.hess_vec(x.copy(), v.copy()), H0 @ v, np.full(N, hs * (np.sum(np.abs(v)) + 1e-12))),
            run('jacobian', lambda: np.asarray(cgv.jacobian(x.copy())).reshape(M, N), Jv, np.full((M, N), np.max(Ja) + 1e-12)),
            run('jac_vec', lambda: cgv.jac_vec(x.copy(), v.copy()), Jv @ v, Ja @ np.abs(v) + 1e-12),
            run('vec_jac', lambda: cgv.vec_jac(w.copy(), x.copy()), w @ Jv, np.abs(w) @ Ja + 1e-12),
        ]
        if not all(oks):
            return
        Hw = sum(w[m] * np.array([[_fl(H[m][i][j](xq)) for j in range(N)] for i in range(N)]) for m in range(M))
        Hwa = sum(abs(w[m]) * np.array([[_fl(H[m][i][j].absval(xq)) for j in range(N)] for i in range(N)]) for m in range(M))
        if not run('vec_hess', lambda: cgv.vec_hess(w.copy(), x.copy()), Hw, np.full((N, N), np.max(Hwa) + 1e-12)):
            return
        if True:          # (w has M entries, x and v have N)
            if not run('vec_hess_vec', lambda: cgv.vec_hess_vec(w.copy(), x.copy(), v.copy()), Hw @ v, np.full(N, (np.max(Hwa) + 1e-12) * (np.sum(np.abs(v)) + 1e-12))):
                return
        # jacobian with a Taylor-polynomial argument: expansion of every Jacobian entry along the curve
        D, P = [(2, 1), (3, 2), (2, 3)][int(rng.integers(3))]
        xc = np.round(0.5 * rng.normal(size=(D, P, N)), 2)
        for pp in range(P):
            xc[0, pp] = x if pp == 0 else np.round(rng.normal(size=N), 2)
        mech = 'poly:jacobian_utpm:%s:%s' % (rec, where)
        try:
            JU = cgv.jacobian(UTPM(xc.copy()))
        except Exception as e:
            ctx.violation(mech + ':raises', dict(info, error=str(e)[:200])); return
        if not isinstance(JU, UTPM) or JU.data.shape != (D, P, M, N):
            ctx.violation(mech + ':shape', dict(info, got=getattr(getattr(JU, 'data', None), 'shape', None), want=(D, P, M, N))); return
        for pp in range(P):
            xs = [Q.ser(xc[:, pp, i]) for i in range(N)]
            for m in range(M):
                for i in range(N):
                    ref, maj = _poly_series(J[m][i], xs, D)
                    for d in range(D):
                        gv = float(JU.data[d, pp, m, i])
                        e = abs(Fraction(gv) - ref[d].re) if np.isfinite(gv) else None
                        if e is None or e > Fraction(1, 10 ** 9) * (maj[d].re + 1):
                            ctx.violation(mech + ':value', dict(info, D=D, P=P, direction=pp, entry=[m, i], order=d, got=float(JU.data[d, pp, m, i]), want=float(ref[d].re))); return
        ctx.ok('poly:jacobian_utpm', ('poly', 'jacobian_utpm', rec, where, N, M, D, P))
    for (nm, wh, obj, snap) in kept:
        if not np.array_equal(np.asarray(obj), snap):
            ctx.violation('poly:%s:returned-value-changed-by-later-call' % nm, {'N': N, 'M': M, 'rec': rec, 'driver': nm}); return
    ctx.ok('poly:results-stable', ('stable', rec, N, M))


def _poly_series(poly, xs, D):
    """exact truncated series of poly(x(t)) and its majorant"""
    val = Q.const(0, D); maj = Q.const(0, D)
    xa = [Q.absser(s) for s in xs]
    for e, c in poly.t.items():
        t = Q.const(c, D); tm = Q.const(abs(c), D)
        for i, ei in enumerate(e):
            for _ in range(ei):
                t = Q.mul(t, xs[i]); tm = Q.mul(tm, xa[i])
        val = Q.add(val, t); maj = Q.add(maj, tm)
    return val, maj


def _prog(ctx, p, rng):
    """general programs: graph drivers vs forward-mode drivers"""
    rec = p['rec']
    if p['prog'] == 'comp':
        desc, g = progs.random_program(rng, int(rng.integers(3, 10)), 'vector'); n = 3; dom = 'R'; name = 'comp'; shape = (3,)
    else:
        name = p['prog']
        (shape, dom, f) = [(s, d, f) for (nm, s, d, f) in vector_programs() if nm == name][0]
        g = wrap(f, shape); n = int(np.prod(shape)); pr = progs.by_name(name)
    bs0 = gen.base_sampler(dom)
    bs = lambda r, shp: bs0(r, tuple(shape)).reshape(n)
    xr = bs(rng, (n,))
    if rec == 'int':
        # a non-degenerate integer point of the domain (distinct entries), or fall back to a float recording
        if dom in ('R', 'nz'):
            xr = rng.permutation(np.arange(1, n + 1)).astype(float) * rng.choice([-1.0, 1.0], size=n)
        elif dom in ('pos', 'gamma', 'gtm1'):
            xr = rng.permutation(np.arange(1, n + 1)).astype(float)
        else:
            rec = 'float'
    try:
        m = int(np.prod(np.shape(g(np.array(xr, dtype=float)))))
    except Exception:
        ctx.skip('forward-unsupported:' + name); return
    wts = np.round(rng.uniform(0.5, 1.5, size=m), 2)
    gs = scalarize(g, wts)
    try:
        cgv, _ = progs.record(g, [_rec_operand(rec, xr, rng)])
        cgs, _ = progs.record(gs, [_rec_operand(rec, xr, rng)])
    except Exception:
        ctx.skip('not-traceable:%s:%s' % (name, rec)); return
    cgv, cgs = _dup(rng, cgv), _dup(rng, cgs)
    for ip in range(4):
        x = xr.astype(float).copy() if ip == 0 else bs(rng, (n,))
        intargs = (ip == 3 and dom == 'R')
        if ip == 3 and not intargs:
            continue
        if intargs:
            x = np.round(2 * x) + (np.round(2 * x) == 0)          # integer-valued point, handed over as an integer array below
        if name != 'comp' and not pr.in_domain([x.reshape(pr.ins[0][0])]):
            ctx.skip('out_of_domain:regularity-condition'); continue
        if name == 'comp' and g.peak(x) > 1e6:
            ctx.skip('out_of_domain:ill-conditioned (intermediate values > 1e6 cancel in the output)'); continue
        where = 'at-recording-point' if ip == 0 else ('away-integer-arguments' if intargs else 'away')
        v = rng.normal(size=n); w = rng.normal(size=m)
        if intargs:
            v = rng.integers(-3, 4, size=n).astype(float); w = rng.integers(-3, 4, size=m).astype(float)
        try:
            Jf = np.asarray(UTPM.extract_jacobian(g(UTPM.init_jacobian(x.copy())))).reshape(m, n)
            Hs = np.asarray(UTPM.extract_hessian(n, gs(UTPM.init_hessian(x.copy()))))
            gw = lambda xx: algopy.sum(g(xx) * w)
            Hw = np.asarray(UTPM.extract_hessian(n, gw(UTPM.init_hessian(x.copy()))))
            xp = x + 1e-7 * (1 + np.abs(x)) * rng.choice([-1.0, 1.0], size=n)
            Jp = np.asarray(UTPM.extract_jacobian(g(UTPM.init_jacobian(xp)))).reshape(m, n)
            Hp = np.asarray(UTPM.extract_hessian(n, gs(UTPM.init_hessian(xp))))
        except Exception:
            ctx.skip('forward-drivers-unsupported:' + name); return
        if not (np.all(np.isfinite(Jp)) and np.all(np.isfinite(Hp))) or np.max(np.abs(Jp - Jf)) > 1e-4 * (1 + np.max(np.abs(Jf))) \
                or np.max(np.abs(Hp - Hs)) > 1e-3 * (1 + np.max(np.abs(Hs))):
            ctx.skip('out_of_domain:singular-or-kink (Jacobian not Lipschitz at this point)'); continue
        if not (np.all(np.isfinite(Jf)) and np.all(np.isfinite(Hs)) and np.all(np.isfinite(Hw))) or max(np.max(np.abs(Jf)), np.max(np.abs(Hs)), np.max(np.abs(Hw))) > 1e6:
            ctx.skip('out_of_domain:ill-conditioned'); continue
        js = np.max(np.abs(Jf)) + 1e-5; hs = np.max(np.abs(Hs)) + js; hw = np.max(np.abs(Hw)) + js      # 1e-5: floor for identically vanishing derivatives (x/x)
        info = {'program': name, 'rec': rec, 'where': where, 'n': n, 'm': m}
        ity = [np.int64, np.int32, np.int16][int(rng.integers(3))]       # integers of any width
        xa, va, wa = (x.astype(ity), v.astype(ity), w.astype(ity)) if intargs else (x, v, w)
        info = dict(info, x=x.tolist(), argument_type=(np.dtype(ity).name if intargs else 'float64'), recorded_at=np.asarray(xr).tolist())
        if intargs and rng.random() < 0.35:
            xa, va, wa = xa.tolist(), va.tolist(), wa.tolist()
            info['argument_type'] = 'list of Python ints'
        v2 = np.round(rng.normal(size=n), 2)
        X_ = lambda: (list(xa) if isinstance(xa, list) else xa.copy())
        V_ = lambda: (list(va) if isinstance(va, list) else va.copy())
        W_ = lambda: (list(wa) if isinstance(wa, list) else wa.copy())
        calls = [
            ('gradient', lambda: cgs.gradient(np.asarray(X_())), wts @ Jf, js * np.sum(wts)),
            ('hessian', lambda: cgs.hessian(X_()), Hs, hs),
            ('hess_vec', lambda: cgs.hess_vec(X_(), V_()), Hs @ v, hs * np.sum(np.abs(v))),
            # the Hessian column by column / several products at a fixed point: the same driver again with other vectors
            ('hess_vec', lambda: cgs.hess_vec(X_(), v2.copy()), Hs @ v2, hs * np.sum(np.abs(v2))),
            ('hess_vec', lambda: cgs.hess_vec(X_(), np.eye(n)[n - 1]), Hs[:, n - 1], hs),
            ('jacobian', lambda: np.asarray(cgv.jacobian(X_())).reshape(m, n), Jf, js),
            ('jac_vec', lambda: cgv.jac_vec(X_(), V_()), Jf @ v, js * np.sum(np.abs(v))),
            ('vec_jac', lambda: cgv.vec_jac(W_(), X_()), w @ Jf, js * np.sum(np.abs(w))),
            ('vec_hess', lambda: cgv.vec_hess(W_(), X_()), Hw, hw),
            ('vec_jac', lambda: cgv.vec_jac(np.eye(m)[m - 1], X_()), Jf[m - 1], js),
            ('jac_vec', lambda: cgv.jac_vec(X_(), v2.copy()), Jf @ v2, js * np.sum(np.abs(v2))),
        ]
        if True:          # (w has m entries, x and v have n)
            calls.append(('vec_hess_vec', lambda: cgv.vec_hess_vec(W_(), X_(), V_()), Hw @ v, hw * np.sum(np.abs(v))))
        for dname, call, ref, sc in calls:
            mech = 'prog:%s:%s:%s' % (dname, name, where)
            try:
                got = call()
            except Exception as e:
                from .c03 import _refusal
                if _refusal(e):
                    ctx.skip('unsupported:%s:%s' % (dname, name)); continue
                ctx.violation(mech + ':raises', dict(info, driver=dname, error=str(e)[-250:])); return
            ref = np.asarray(ref, dtype=float)
            if not _cmp(ctx, mech, got, ref, np.full(ref.shape, sc), dict(info, driver=dname), tau=1e-7):
                return
            ctx.ok('prog:' + dname, ('prog', dname, name, rec, where))
