"""C14 - operands are never modified; aliased and in-place forms are safe.
(a) always-on byte-snapshot monitor of the probe layer (every argument of every public call, pb_* and tracer call)
    riding on the directed workloads of the other properties;
(b) alias differential: x op x, x op= x, x op= view_of_x against the same operation on independent copies (O-self)."""
import operator
import numpy as np
import algopy
from algopy import UTPM
from ..core import case_seed
from .. import gen, probe, monitors, pool

PID = 'C14'
TOL = 1e-12
RULE = ('(a) byte snapshots of every array argument before/after every call of the wrapped public boundary (UTPM operators, '
        'methods, pb_* with their out= accumulators exempt, CGraph.pushforward/pullback/drivers, Function(...)) while the '
        'workloads of C01 C02 C03 C04 C05 C06 C07 C08 C09 C13 run; (b) all binary operators/functions with both operands the same '
        'object and all in-place operators with the right operand {same object, full view, transposed view, reversed view, '
        'overlapping slice} x D in 1..4 x P in 1..3 x shapes; class = (call name, nested?) for (a), (op, alias kind, D, P, shape) '
        'for (b); (c) objects handed to a graph earlier (recording value, evaluation points, seeds) re-inspected after a sequence of later evaluations, sweeps and drivers; non-trivial = the call received at least one array argument')
ASSUMPTIONS = ['the operation on independent copies is the reference for aliased forms',
               'views returned by getitem/transpose/reshape are not modifications; in-place operators may change only the left operand; '
               'pb_* may change only their out= accumulators']
ALIAS = ['same', 'fullview', 'transposed', 'reversed', 'overlap', 'left-is-view', 'left-is-transposed-view']
BIN = {'add': operator.add, 'sub': operator.sub, 'mul': operator.mul, 'div': operator.truediv, 'pow': operator.pow,
       'dot': algopy.dot, 'outer': algopy.outer, 'minimum': algopy.minimum, 'maximum': algopy.maximum}
IOP = {'iadd': operator.iadd, 'isub': operator.isub, 'imul': operator.imul, 'idiv': operator.itruediv}
REQUIRED = ['immutability:op', 'immutability:pb', 'immutability:tracer', 'alias:floordiv', 'alias:iouter', 'retained-inputs', 'subclass-operands', 'temporary-operands', 'seeds'] + ['alias:' + k for k in BIN] + ['alias:' + k for k in IOP]

_mon = None


def setup(ctx, tier):
    global _mon
    _mon = monitors.ImmutabilityMonitor(ctx)
    probe.install([_mon])


def teardown(ctx):
    probe.S.monitors = ()
    ctx.extra['probe_calls_observed'] = probe.S.calls
    for k in [k for k in ctx.ops if k.startswith('immutability:name:')]:
        ctx.extra.setdefault('calls_checked_by_name', {})[k.split(':', 2)[2]] = ctx.ops.pop(k)


def cases(tier, seed):
    out = pool.pool_cases(tier, seed, ['c01', 'c02', 'c07', 'c08', 'c13', 'c03', 'c05', 'c06', 'c04', 'c09'], 250 if tier == 'quick' else 6000)
    if True:
        out.insert(0, pool.ambient_case(PID))
    if tier == 'thorough':
        out.insert(0, pool.ambient_docs_case(PID))
    for k in range(2 if tier == 'quick' else 24):
        out.append({'kind': 'bare', 'seed': case_seed('C14', seed, 'bare', k), 'params': {}})
    DP = [(1, 1), (2, 2), (3, 1), (4, 3)] if tier == 'quick' else [(1, 1), (2, 1), (2, 2), (3, 3), (4, 1), (5, 2)]
    for (D, P) in DP:
        for shape in [(3,), (2, 2), (3, 3), ()]:
            for op in list(BIN) + list(IOP):
                out.append({'kind': 'alias', 'seed': case_seed('C14', seed, D, P, shape, op), 'params': {'D': D, 'P': P, 'shape': list(shape), 'op': op}})
        for k in range(6 if tier == 'quick' else 40):
            out.append({'kind': 'retained', 'seed': case_seed('C14', seed, 'retained', D, P, k), 'params': {'D': D, 'P': P}})
        for k in range(3):
            out.append({'kind': 'iouter', 'seed': case_seed('C14', seed, 'iouter', D, P, k), 'params': {'D': D, 'P': P, 'which': k}})
        for k in range(4):
            out.append({'kind': 'seeds', 'seed': case_seed('C14', seed, 'seeds', D, P, k), 'params': {'D': D, 'P': P, 'which': k}})
        for k in range(3):
            out.append({'kind': 'subclass', 'seed': case_seed('C14', seed, 'subclass', D, P, k), 'params': {'D': D, 'P': P, 'which': k}})
        for lay in gen.LAYOUTS + ['transposed-view', 'slice-of-larger']:
            out.append({'kind': 'layouts', 'seed': case_seed('C14', seed, 'layouts', D, P, lay), 'params': {'D': D, 'P': P, 'layout': lay}})
        out.append({'kind': 'outalias', 'seed': case_seed('C14', seed, 'outalias', D, P), 'params': {'D': D, 'P': P}})
        out.append({'kind': 'writes_input', 'seed': case_seed('C14', seed, 'writes_input', D, P), 'params': {'D': D, 'P': P}})
        for k in range(2):
            out.append({'kind': 'floordiv', 'seed': case_seed('C14', seed, 'floordiv', D, P, k), 'params': {'D': D, 'P': P}})
    return out


MATRIX_FUNCS = ['det', 'logdet', 'lu2', 'lu', 'inv', 'qr', 'qr_full', 'cholesky', 'eigh', 'eigh1', 'svd', 'eig', 'expm', 'trace', 'diag', 'symvec', 'transpose',
                'solve_self_rhs', 'solve_as_rhs', 'dot_self', 'dot_left', 'dot_right', 'outer_rows', 'sum', 'prod', 'exp', 'sqrt', 'sin', 'tan', 'reciprocal', 'square', 'tril', 'triu']


def _layouts(ctx, p, rng):
    """every matrix function on one operand in a given memory layout (Fortran order, transposed view of the caller's object, slice of
    a larger array of the caller, strided, reversed, unaligned): the operand, the caller's object it is a view of and the bytes
    around it are unchanged afterwards, and a second evaluation returns the same coefficients.  (LAPACK wrappers with overwrite_*
    options work in place exactly when the slice they get is Fortran-contiguous.)"""
    D, P, lay = p['D'], p['P'], p['layout']
    n = 3
    base = 0.3 * rng.normal(size=(D, P, n, n))
    base[0] = 0.5 * base[0] + 0.5 * np.swapaxes(base[0], -1, -2) + 2.0 * np.eye(n)          # symmetric positive definite base, distinct eigenvalues
    base[0] += np.diag([0.0, 0.7, 1.9])
    if lay == 'transposed-view':
        owner = UTPM(np.swapaxes(base, -1, -2).copy())
        x = owner.T
        parent = owner.data
    elif lay == 'slice-of-larger':
        parent = rng.normal(size=(D, P, n + 2, n + 2))
        parent[:, :, 1:n + 1, 1:n + 1] = base
        x = UTPM(parent)[1:n + 1, 1:n + 1]
    else:
        arr = gen.relayout(base, lay)
        parent = arr.base if arr.base is not None else arr
        x = UTPM(arr)
    if not np.array_equal(x.data, base):
        ctx.monitor_error('layouts', RuntimeError('operand construction: %s' % lay)); return
    keep_parent = np.array(parent, copy=True)
    for name in MATRIX_FUNCS:
        f = {'solve_self_rhs': lambda a: UTPM.solve(a, a), 'solve_as_rhs': lambda a: UTPM.solve(UTPM(base.copy()), a), 'dot_self': lambda a: UTPM.dot(a, a),
             'dot_left': lambda a: UTPM.dot(a, UTPM(base.copy())), 'dot_right': lambda a: UTPM.dot(UTPM(base.copy()), a), 'outer_rows': lambda a: UTPM.outer(a[0], a[1]),
             'sum': lambda a: UTPM.sum(a, axis=0), 'prod': lambda a: UTPM.prod(a[0]), 'tril': lambda a: algopy.tril(a), 'triu': lambda a: algopy.triu(a),
             'transpose': lambda a: a.T.copy(), 'expm': lambda a: algopy.expm(a)}.get(name) or (lambda a, _g=getattr(UTPM, name, None) or getattr(algopy, name): _g(a))
        try:
            r1 = f(x)
            first = [np.array(v.data, copy=True) for v in (r1 if isinstance(r1, (tuple, list)) else (r1,)) if isinstance(v, UTPM)]
            changed = not (np.array_equal(x.data, base) and np.array_equal(parent, keep_parent))
            r2 = f(x)
            second = [np.array(v.data, copy=True) for v in (r2 if isinstance(r2, (tuple, list)) else (r2,)) if isinstance(v, UTPM)]
        except Exception as e:
            if not (np.array_equal(x.data, base) and np.array_equal(parent, keep_parent)):
                ctx.violation('layouts:%s:operand-modified' % name, {'function': name, 'layout': lay, 'D': D, 'P': P, 'raised': repr(e)[:120]}); return
            ctx.skip('unsupported:layouts:%s' % name); continue
        if changed or not (np.array_equal(x.data, base) and np.array_equal(parent, keep_parent)):
            ctx.violation('layouts:%s:operand-modified' % name, {'function': name, 'layout': lay, 'D': D, 'P': P,
                          'max_change': float(np.max(np.abs(x.data - base)))}); return
        if len(first) != len(second) or not all(a.shape == b.shape and np.array_equal(a, b, equal_nan=True) for a, b in zip(first, second)):
            ctx.violation('layouts:%s:second-evaluation-differs' % name, {'function': name, 'layout': lay, 'D': D, 'P': P}); return
        ctx.ok('layouts:' + name, ('layouts', name, lay, D, P))


def _outalias(ctx, p, rng):
    """the result buffer of a product is one of its operands (dot(M, v, out=v), dot(M, X, out=X), dot(X, C, out=X): NumPy's in-place
    update idiom): the returned product has the coefficients obtained with independent copies of the operands"""
    D, P = p['D'], p['P']
    n = 3
    M0 = gen.series_data(rng, D, P, (n, n), 'R', 'random', False, 0.4); X0 = gen.series_data(rng, D, P, (n, n), 'R', 'random', False, 0.4)
    v0 = gen.series_data(rng, D, P, (n,), 'R', 'random', False, 0.4); C0 = np.round(rng.normal(size=(n, n)), 2)
    forms = [('dot(M, v, out=v)', lambda M, X, v: UTPM.dot(M, v, out=v), lambda M, X, v: UTPM.dot(M, v)),
             ('dot(M, X, out=X)', lambda M, X, v: UTPM.dot(M, X, out=X), lambda M, X, v: UTPM.dot(M, X)),
             ('dot(M, X, out=M)', lambda M, X, v: UTPM.dot(M, X, out=M), lambda M, X, v: UTPM.dot(M, X)),
             ('dot(X, C, out=X)', lambda M, X, v: UTPM.dot(X, C0, out=X), lambda M, X, v: UTPM.dot(X, C0)),
             ('dot(C, X, out=X)', lambda M, X, v: UTPM.dot(C0, X, out=X), lambda M, X, v: UTPM.dot(C0, X)),
             ('dot(X, X, out=X)', lambda M, X, v: UTPM.dot(X, X, out=X), lambda M, X, v: UTPM.dot(X, X))]
    for name, f, g in forms:
        ref = g(UTPM(M0.copy()), UTPM(X0.copy()), UTPM(v0.copy()))
        try:
            got = f(UTPM(M0.copy()), UTPM(X0.copy()), UTPM(v0.copy()))
        except Exception:
            ctx.skip('unsupported:alias:out=:' + name); continue
        err = float(np.max(np.abs(got.data - ref.data)) / (np.max(np.abs(ref.data)) + 1e-300)) if got.data.shape == ref.data.shape else float('inf')
        if not err <= TOL:
            ctx.violation('alias:out-is-an-operand:value', {'form': name, 'D': D, 'P': P, 'err': err}); return
        ctx.ok('alias:out=', ('outalias', name, D, P), noise=err)


def _writes_input(ctx, p, rng):
    """a recorded program that assigns into its own argument (x[0] = x[1] * x[2]): every driver evaluates the graph on its own copy of
    the point - the caller's array is unchanged afterwards, may be read-only, and a second call returns the same values"""
    from algopy import CGraph, Function
    n = 4
    xr = np.round(rng.normal(size=n), 2) + 0.5
    cg = CGraph()
    x = Function(xr.copy())
    x[0] = x[1] * x[2]
    y = algopy.sum(x * x)
    cg.trace_off(); cg.independentFunctionList = [x]; cg.dependentFunctionList = [y]
    cgv = CGraph()
    xv = Function(xr.copy())
    xv[0] = xv[1] * xv[2]
    yv = xv * xv
    cgv.trace_off(); cgv.independentFunctionList = [xv]; cgv.dependentFunctionList = [yv]
    v = np.round(rng.normal(size=n), 2); w = np.round(rng.normal(size=n), 2)
    g = lambda a: np.array([0.0, 2 * a[1] + 2 * a[1] * a[2] ** 2, 2 * a[2] + 2 * a[2] * a[1] ** 2, 2 * a[3]])
    # (cg.function / pushforward run the program on the objects they are given, like calling the Python function would: not included)
    drivers = [('gradient', cg, lambda a: cg.gradient(a)),
               ('hessian', cg, lambda a: cg.hessian(a)), ('hess_vec', cg, lambda a: cg.hess_vec(a, v.copy())), ('jacobian', cgv, lambda a: cgv.jacobian(a)),
               ('jac_vec', cgv, lambda a: cgv.jac_vec(a, v.copy())), ('vec_jac', cgv, lambda a: cgv.vec_jac(w.copy(), a)), ('vec_hess', cgv, lambda a: cgv.vec_hess(w.copy(), a))]
    monitors.PROGRAM_WRITES_INPUT[0] = True
    try:
        return _writes_input_drivers(ctx, p, rng, drivers, n, g)
    finally:
        monitors.PROGRAM_WRITES_INPUT[0] = False


def _writes_input_drivers(ctx, p, rng, drivers, n, g):
    for name, graph, call in drivers:
        xa = np.round(rng.normal(size=n), 2) + 0.25
        keep = xa.copy()
        for readonly in (False, True):
            xa.setflags(write=not readonly)
            try:
                r1 = np.array(call(xa), dtype=float, copy=True)
                r2 = np.array(call(xa), dtype=float, copy=True)
            except Exception as e:
                ctx.violation('writes-input:%s:raises' % name, {'driver': name, 'point_read_only': readonly, 'error': repr(e)[:160],
                                                                'point_unchanged': bool(np.array_equal(xa, keep))}); return
            if not np.array_equal(xa, keep):
                ctx.violation('writes-input:%s:point-modified' % name, {'driver': name, 'before': keep.tolist(), 'after': xa.tolist()}); return
            if not np.array_equal(r1, r2):
                ctx.violation('writes-input:%s:second-call-differs' % name, {'driver': name}); return
            if name == 'gradient' and not np.allclose(r1, g(keep), rtol=1e-12, atol=1e-12):
                ctx.violation('writes-input:gradient:value', {'got': r1.tolist(), 'want': g(keep).tolist()}); return
        else:
            ctx.ok('writes-input:' + name, ('writes_input', name, p['D'], p['P']))


def _floordiv(ctx, p, rng):
    """x // y with a vanishing leading coefficient of y (L'Hospital path): operands untouched, t // t == 1"""
    D, P = p['D'] + 1, p['P']
    t = np.zeros((D, P, 2)); t[1] = 1.0; t[2:] = 0.3 * rng.normal(size=(D - 2, P, 2))
    num = 0.5 * rng.normal(size=(D, P, 2)); num[0] = 0.0
    T_, N_ = UTPM(t.copy()), UTPM(num.copy())
    try:
        q = N_ // T_
        one = T_ // T_
    except Exception:
        ctx.skip('unsupported:floordiv'); return
    if not (np.array_equal(T_.data, t) and np.array_equal(N_.data, num)):
        ctx.violation('floordiv:operand-modified', {'D': D, 'P': P}); return
    ref = np.zeros_like(t); ref[0] = 1.0
    if not np.allclose(one.data[:D - 1], ref[:D - 1], atol=1e-12):
        ctx.violation('alias:floordiv:same-object:value', {'D': D, 'P': P}); return
    ctx.ok('alias:floordiv', ('floordiv', D, P))


def _iouter(ctx, p, rng):
    """UTPM.iouter(x, y, out): out += x y^T in place, with x and / or y a view of out (a rank-one update of a matrix by its own
    column or row): same coefficients as with independent copies of the operands"""
    D, P, which = p['D'], p['P'], p['which']
    n = 3
    A0 = gen.series_data(rng, D, P, (n, n), 'R', 'random', False, 0.5)
    y0 = gen.series_data(rng, D, P, (n,), 'R', 'random', False, 0.5)
    A = UTPM(A0.copy())
    if which == 0:
        x, y, xr, yr, ak = A[:, 0], UTPM(y0.copy()), UTPM(A0[:, :, :, 0].copy()), UTPM(y0.copy()), 'x-is-column-of-out'
    elif which == 1:
        x, y, xr, yr, ak = UTPM(y0.copy()), A[1, :], UTPM(y0.copy()), UTPM(A0[:, :, 1, :].copy()), 'y-is-row-of-out'
    else:
        x, y, xr, yr, ak = A[:, 2], A[0, :], UTPM(A0[:, :, :, 2].copy()), UTPM(A0[:, :, 0, :].copy()), 'both-views-of-out'
    try:
        ref = UTPM.iouter(xr, yr, UTPM(A0.copy()))
        got = UTPM.iouter(x, y, A)
    except Exception as e:
        ctx.skip('unsupported:alias:iouter:%s' % ak); return
    err = float(np.max(np.abs(A.data - ref.data)) / (np.max(np.abs(ref.data)) + 1e-300))
    if not err <= TOL:
        ctx.violation('alias:iouter:%s:value' % ak, {'alias': ak, 'D': D, 'P': P, 'err': err}); return
    ctx.ok('alias:iouter', ('iouter', ak, D, P), noise=err)


def _retained(ctx, p, rng):
    """every object the user handed to the graph - the value it was recorded with, the points of earlier evaluations, the seeds
    of earlier sweeps - is kept by the caller and must be unchanged at the end of a sequence of evaluations, sweeps and drivers
    (the per-call snapshots of the monitor only see the arguments of the call in progress)"""
    from .. import progs
    D, P = p['D'], p['P']
    cands = [q for q in progs.cat() if len(q.ins) == 1 and not q.maxD and not ({'refused', 'nopb', 'fancy', 'augmented', 'nonunique', 'buffer'} & q.tags)]
    q = cands[int(rng.integers(len(cands)))]
    shape, dom = q.ins[0]
    w = None

    def gs(x):
        y = q.f(x)
        return algopy.sum(y * w) if w is not None else algopy.sum(y)
    kept = []

    def keep(role, o):
        kept.append((role, o, (o.data if isinstance(o, UTPM) else np.asarray(o)).copy()))
        return o
    mk = lambda: UTPM(gen.series_data(rng, D, P, tuple(shape), dom, 'random', False, 0.3))
    pt = lambda: gen.base_sampler(dom)(rng, tuple(shape))
    try:
        rec_utpm = rng.random() < 0.6
        x0 = keep('recording-value', mk() if rec_utpm else pt())
        cg, y0 = progs.record(gs, [x0])
        for step in range(int(rng.integers(3, 7))):
            r = int(rng.integers(5))
            if r == 0:
                cg.pushforward([keep('pushforward-point', mk())])
                cg.pullback([keep('pullback-seed', UTPM(rng.normal(size=(D, P))))])
            elif r == 1:
                cg.pushforward([keep('pushforward-point', mk())])
            elif r == 2 and len(shape) == 1:
                cg.gradient(keep('gradient-point', pt()))
            elif r == 3:
                cg.function([keep('function-point', pt())])
            elif len(shape) == 1:
                cg.hess_vec(keep('hess_vec-point', pt()), keep('hess_vec-direction', rng.normal(size=shape)))
    except Exception as e:
        ctx.skip('unsupported:retained:' + q.name); return
    for role, o, snap in kept:
        now = o.data if isinstance(o, UTPM) else np.asarray(o)
        if now.shape != snap.shape or not np.array_equal(now, snap, equal_nan=True):
            ctx.violation('retained-input-changed-by-later-call:%s' % role, {'program': q.name, 'role': role, 'D': D, 'P': P, 'objects_kept': [r_ for r_, _, _ in kept]}); return
    ctx.ok('retained-inputs', ('retained', q.name, D, P))


def _seeds(ctx, p, rng):
    """the adjoint seeds handed to CGraph.pullback belong to the caller: several dependents of which one is computed from another (so
    that adjoints are accumulated into a dependent node during the sweep), a dependent that was the target of an item assignment,
    seeds of the same / a narrower / a wider number type than the recorded values (float64 seeds on a single precision evaluation,
    complex seeds for real outputs), seeds that are views"""
    from algopy import CGraph, Function
    D, P, which = p['D'], p['P'], p['which']
    n = 3
    x0 = gen.series_data(rng, D, P, (n,), 'R', 'random', False, 0.3)
    xdt, sdt = [(np.float64, np.float64), (np.float32, np.float64), (np.float64, np.complex128), (np.float64, np.float32)][which]
    try:
        cg = CGraph()
        x = Function(UTPM(x0.astype(xdt)))
        y = algopy.sin(x) * x
        z = algopy.exp(y * 0.5) + y                 # a dependent computed from another dependent
        b = algopy.zeros(n, dtype=x)
        b[...] = x * 2.0
        b[0] = y[1] * x[0]                          # a dependent that is the target of item assignments
        cg.trace_off()
        cg.independentFunctionList = [x]; cg.dependentFunctionList = [y, z, b]
    except Exception:
        ctx.skip('unsupported:seeds'); return
    for rep in range(2):
        seeds = [UTPM((rng.normal(size=(D, P, n)) + (1j * rng.normal(size=(D, P, n)) if sdt is np.complex128 else 0)).astype(sdt)) for _ in range(3)]
        big = rng.normal(size=(D, P, n + 2)).astype(sdt if sdt is not np.complex128 else np.float64)
        if rep == 1:
            seeds[0] = UTPM(big[:, :, 1:-1])        # a seed that is a view of a larger array of the caller
        snaps = [s_.data.copy() for s_ in seeds]; bigsnap = big.copy()
        try:
            cg.pullback(seeds)
        except Exception:
            ctx.skip('unsupported:seeds:pullback'); continue
        for i, (s_, sn) in enumerate(zip(seeds, snaps)):
            if s_.data.shape != sn.shape or not np.array_equal(s_.data, sn, equal_nan=True):
                ctx.violation('pullback-changed-the-seed:%s' % ['same-type', 'wider-than-single-precision-values', 'complex-seed-of-real-output', 'narrower'][which],
                              {'D': D, 'P': P, 'dependent': ['y', 'z = g(y)', 'buffer'][i], 'values': np.dtype(xdt).name, 'seeds': np.dtype(sdt).name}); return
        if not np.array_equal(big, bigsnap):
            ctx.violation('pullback-changed-the-array-behind-a-seed-view', {'D': D, 'P': P}); return
        ctx.ok('seeds', ('seeds', which, D, P, rep))


def _bare(ctx, case):
    """functions and operators on unnamed temporaries that share memory with kept objects, evaluated in a fresh interpreter
    without the probe layer (whose wrappers hold references to the operands and so hide anything that depends on reference
    counts or object identity); see adsan/bare_temporaries.py"""
    import subprocess, sys, os, json
    from .. import boot
    script = os.path.join(os.path.dirname(os.path.dirname(os.path.abspath(__file__))), 'bare_temporaries.py')
    try:
        r = subprocess.run([sys.executable, script, str(case['seed'] % (2 ** 31))], stdout=subprocess.PIPE, stderr=subprocess.PIPE, text=True, timeout=300,
                           env=dict(os.environ, ALGOPY_REPO=boot.repo_path(), PYTHONDONTWRITEBYTECODE='1'))
        rep = json.loads(r.stdout.strip().splitlines()[-1])
    except Exception as e:
        ctx.monitor_error('bare-temporaries', e); return
    if os.path.realpath(rep.get('sut', '')) != os.path.join(boot.repo_path(), 'algopy'):
        ctx.monitor_error('bare-temporaries', RuntimeError('subprocess imported %s' % rep.get('sut'))); return
    for v in rep['violations']:
        ctx.violation('temporary-operand:%s:%s' % (v['function'], 'kept-object-changed' if v['kept_object_changed'] else 'result-not-repeatable'), v)
    ctx.evaluations += max(0, rep['checked'] - 1)
    if rep['checked'] > 500:
        ctx.ok('temporary-operands', ('bare', case['seed'] % 7), sample={'expressions_checked': rep['checked'], 'forms': rep['expressions'], 'unsupported': rep['unsupported']})
    else:
        ctx.skip('bare-temporaries:too-few-expressions-evaluated')


class _UserUTPM(UTPM):
    """what a user's own subclass looks like"""


def _subclass(ctx, p, rng):
    """operands that are instances of a subclass of UTPM (algopy.UTP with either coefficient convention, a user's own subclass):
    every function, operator and copy leaves them as they were, and a copy that is then changed in place is a copy"""
    D, P, which = p['D'], p['P'], p['which']
    shape = [(3,), (2, 2), ()][int(rng.integers(3))]
    data = gen.series_data(rng, D, P if which != 0 else 1, shape, 'pos', 'random', False, 0.3)
    if which == 0:
        mk = lambda: algopy.UTP(data[:, 0].copy(), vectorized=False)
        if not shape and D == 1:
            pass
    elif which == 1:
        mk = lambda: algopy.UTP(data.copy(), vectorized=True)
    else:
        mk = lambda: _UserUTPM(data.copy())
    tag = ['UTP', 'UTP-vectorized', 'user-subclass'][which]
    acts = [('exp', lambda x, y: algopy.exp(x)), ('log', lambda x, y: algopy.log(x)), ('sqrt', lambda x, y: np.sqrt(x)), ('sin', lambda x, y: algopy.sin(x)),
            ('method-exp', lambda x, y: x.exp()), ('tan', lambda x, y: algopy.tan(x)), ('neg', lambda x, y: -x), ('abs', lambda x, y: abs(x)),
            ('add', lambda x, y: x + y), ('mul', lambda x, y: x * y), ('div', lambda x, y: x / y), ('rdiv', lambda x, y: 2.0 / x), ('pow', lambda x, y: x ** 2.5),
            ('mul-self', lambda x, y: x * x), ('copy-then-imul', lambda x, y: x.copy().__imul__(y)), ('clone-then-iadd', lambda x, y: x.clone().__iadd__(y)),
            ('copy-then-idiv', lambda x, y: x.copy().__itruediv__(y)), ('clone-then-isub-self', lambda x, y: x.clone().__isub__(x)),
            ('clone-then-setitem', lambda x, y: x.clone().__setitem__(Ellipsis, 0.0)), ('deepcopy-then-imul', lambda x, y: __import__('copy').deepcopy(x).__imul__(y)),
            ('sum', lambda x, y: algopy.sum(x)), ('T', lambda x, y: x.T), ('zeros_like', lambda x, y: algopy.zeros_like(x)), ('square', lambda x, y: algopy.square(x))]
    for name, act in acts:
        x, y = mk(), mk()
        snapx, snapy = x.data.copy(), y.data.copy()
        try:
            act(x, y)
        except Exception:
            ctx.skip('unsupported:subclass:%s:%s' % (tag, name)); continue
        if x.data.shape != snapx.shape or not np.array_equal(x.data, snapx) or not np.array_equal(y.data, snapy):
            ctx.violation('subclass-operand-changed:%s:%s' % (tag, name), {'class': tag, 'operation': name, 'D': D, 'P': P, 'shape': shape}); return
        ctx.ok('subclass-operands', ('subclass', tag, name, D, shape))


def run_case(ctx, case):
    if case['kind'] == 'pool':
        return pool.run_host(case)
    if case['kind'] in ('ambient', 'ambient-docs'):
        probe.S.suppress = True
        try:
            return pool.run_ambient(ctx, PID) if case['kind'] == 'ambient' else pool.run_ambient_docs(ctx, PID)
        finally:
            probe.S.suppress = False
    if case['kind'] == 'layouts':
        return _layouts(ctx, case['params'], gen.rng_of(case))
    if case['kind'] == 'outalias':
        return _outalias(ctx, case['params'], gen.rng_of(case))
    if case['kind'] == 'writes_input':
        return _writes_input(ctx, case['params'], gen.rng_of(case))
    if case['kind'] == 'floordiv':
        return _floordiv(ctx, case['params'], gen.rng_of(case))
    if case['kind'] == 'iouter':
        return _iouter(ctx, case['params'], gen.rng_of(case))
    if case['kind'] == 'retained':
        return _retained(ctx, case['params'], gen.rng_of(case))
    if case['kind'] == 'subclass':
        return _subclass(ctx, case['params'], gen.rng_of(case))
    if case['kind'] == 'bare':
        return _bare(ctx, case)
    if case['kind'] == 'seeds':
        return _seeds(ctx, case['params'], gen.rng_of(case))
    p = case['params']
    rng = gen.rng_of(case)
    D, P, shape, op = p['D'], p['P'], tuple(p['shape']), p['op']
    dom = 'pos' if op in ('pow', 'div', 'idiv') else 'R'
    data = gen.series_data(rng, D, P, shape, dom, 'random', False, 0.5)
    if op in BIN:
        if op in ('dot',) and len(shape) == 0:
            return
        if op == 'outer' and len(shape) != 1:
            return
        x = UTPM(data.copy())
        try:
            got = BIN[op](x, x)
            want = BIN[op](UTPM(data.copy()), UTPM(data.copy()))
        except Exception as e:
            ctx.skip('unsupported:alias:%s' % op); return
        if not np.array_equal(x.data, data):
            ctx.violation('alias:%s:operand-modified' % op, {'op': op, 'D': D, 'P': P, 'shape': shape}); return
        err = float(np.max(np.abs(got.data - want.data)) / (np.max(np.abs(want.data)) + 1e-300)) if want.data.size else 0.0
        if got.data.shape != want.data.shape or not err <= TOL:
            ctx.violation('alias:%s:same-object:value' % op, {'op': op, 'D': D, 'P': P, 'shape': shape, 'err': err}); return
        ctx.ok('alias:' + op, ('bin', op, D, P, shape), noise=err)
        # two different views of one buffer that start at the same element (first row and first column of a matrix, a vector and
        # every second element of it): not the same operand, whatever their addresses say
        if op in ('add', 'sub', 'mul', 'div', 'dot', 'outer', 'minimum', 'maximum') and len(shape) == 1:
            n = shape[0]
            big = gen.series_data(rng, D, P, (max(n, 2), 2 * max(n, 2)), dom, 'random', False, 0.5)
            B = UTPM(big.copy())
            for vk, (u, v, uc, vc) in (('row-and-column', (B[0, :n], B[:n, 0], big[:, :, 0, :n], big[:, :, :n, 0])),
                                       ('vector-and-strided', (B[0, :n], B[0, :2 * n:2], big[:, :, 0, :n], big[:, :, 0, :2 * n:2]))):
                try:
                    got = BIN[op](u, v); want = BIN[op](UTPM(uc.copy()), UTPM(vc.copy()))
                except Exception:
                    ctx.skip('unsupported:alias:%s:%s' % (op, vk)); continue
                err = float(np.max(np.abs(got.data - want.data)) / (np.max(np.abs(want.data)) + 1e-300)) if want.data.size else 0.0
                if got.data.shape != want.data.shape or not err <= TOL or not np.array_equal(B.data, big):
                    ctx.violation('alias:%s:%s:value' % (op, vk), {'op': op, 'alias': vk, 'D': D, 'P': P, 'shape': shape, 'err': err}); return
                ctx.ok('alias:' + op, ('bin', op, vk, D, P, shape), noise=err)
        return
    # the right operand is a plain array that is a view of the left operand's own coefficient storage (x op= x.data[0, 0]),
    # or a lower-rank polynomial view of the left operand (x op= x[k]): same result as with an independent copy
    if len(shape) >= 1:
        for ak2 in ('constant-is-view-of-own-coefficients', 'right-is-row-of-left'):
            x = UTPM(data.copy()); xc = UTPM(data.copy())
            try:
                if ak2.startswith('constant'):
                    IOP[op](x, x.data[0, 0]); IOP[op](xc, data[0, 0].copy())
                else:
                    if len(shape) < 2:
                        continue
                    k_ = int(rng.integers(shape[0]))
                    IOP[op](x, x[k_]); IOP[op](xc, UTPM(data[:, :, k_].copy()))
            except Exception:
                ctx.skip('unsupported:alias:%s:%s' % (op, ak2)); continue
            err = float(np.max(np.abs(x.data - xc.data)) / (np.max(np.abs(xc.data)) + 1e-300)) if xc.data.size else 0.0
            if not err <= TOL:
                ctx.violation('alias:%s:%s:value' % (op, ak2), {'op': op, 'alias': ak2, 'D': D, 'P': P, 'shape': shape, 'err': err}); return
            ctx.ok('alias:' + op, ('iop', op, ak2, D, P, shape), noise=err)
    for ak in ALIAS:
        if ak == 'transposed' and not (len(shape) == 2 and shape[0] == shape[1]):
            continue
        if ak in ('reversed', 'overlap') and len(shape) == 0:
            continue
        if ak == 'left-is-view' and len(shape) == 0:
            continue
        x = UTPM(data.copy())
        xc = UTPM(data.copy())
        if ak == 'same':
            r = x; rc = UTPM(data.copy())
        elif ak == 'fullview':
            r = x[...]; rc = UTPM(data.copy())
        elif ak == 'transposed':
            r = x.T; rc = UTPM(np.swapaxes(data, -1, -2).copy())
        elif ak == 'reversed':
            r = x[::-1]; rc = UTPM(data[:, :, ::-1].copy())
        elif ak in ('left-is-view', 'left-is-transposed-view'):
            # x[...] op= x  /  v = x.T; v op= x : the left operand is a view of the right operand's own buffer
            if ak == 'left-is-transposed-view' and not (len(shape) == 2 and shape[0] == shape[1]):
                continue
            owner = UTPM(data.copy())
            left = owner[...] if ak == 'left-is-view' else owner.T
            lc = UTPM(data.copy()) if ak == 'left-is-view' else UTPM(np.swapaxes(data, -1, -2).copy())
            try:
                IOP[op](left, owner); IOP[op](lc, UTPM(data.copy()))
            except Exception:
                ctx.skip('unsupported:alias:%s:%s' % (op, ak)); continue
            err = float(np.max(np.abs(left.data - lc.data)) / (np.max(np.abs(lc.data)) + 1e-300)) if lc.data.size else 0.0
            if not err <= TOL:
                ctx.violation('alias:%s:%s:value' % (op, ak), {'op': op, 'alias': ak, 'D': D, 'P': P, 'shape': shape, 'err': err}); return
            ctx.ok('alias:' + op, ('iop', op, ak, D, P, shape), noise=err)
            continue
        else:
            # x[1:] op= x[:-1]: overlapping slices of the same buffer
            if shape[0] < 2:
                continue
            xs_ = x[1:]; r = x[:-1]
            xcs = UTPM(data[:, :, 1:].copy()); rc = UTPM(data[:, :, :-1].copy())
            try:
                IOP[op](xs_, r); IOP[op](xcs, rc)
            except Exception:
                ctx.skip('unsupported:alias:%s:%s' % (op, ak)); continue
            err = float(np.max(np.abs(x.data[:, :, 1:] - xcs.data)) / (np.max(np.abs(xcs.data)) + 1e-300))
            if not err <= TOL:
                ctx.violation('alias:%s:%s:value' % (op, ak), {'op': op, 'alias': ak, 'D': D, 'P': P, 'shape': shape, 'err': err}); return
            ctx.ok('alias:' + op, ('iop', op, ak, D, P, shape), noise=err)
            continue
        try:
            IOP[op](x, r); IOP[op](xc, rc)
        except Exception:
            ctx.skip('unsupported:alias:%s:%s' % (op, ak)); continue
        err = float(np.max(np.abs(x.data - xc.data)) / (np.max(np.abs(xc.data)) + 1e-300)) if xc.data.size else 0.0
        if not err <= TOL:
            ctx.violation('alias:%s:%s:value' % (op, ak), {'op': op, 'alias': ak, 'D': D, 'P': P, 'shape': shape, 'err': err,
                                                         'first_bad_order': int(np.argmax(np.abs(x.data - xc.data).reshape(D, -1).max(axis=1) > TOL * np.max(np.abs(xc.data))))}); return
        ctx.ok('alias:' + op, ('iop', op, ak, D, P, shape), noise=err)


def finish(ctx):
    from .. import core
    ctx.extra['distinct_call_names_checked'] = len(ctx.extra.get('calls_checked_by_name', {}))
    return core.finish(ctx, REQUIRED, RULE, assumptions=ASSUMPTIONS)
