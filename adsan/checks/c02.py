"""C02 - arithmetic is exact truncated power-series arithmetic for every operand mix.
Monitor: postcondition on the operator call; expected element mapping from NumPy broadcasting of index arrays,
expected values from exact rational series arithmetic (O-Q); real/complex exponents and scalar bases via O-mp."""
import operator
import numpy as np
import mpmath as mp
import algopy
from algopy import UTPM
from ..core import case_seed
from .. import qser as Q, mporacle as O, gen

PID = 'C02'
TAU = 1e-12
TAU_MP = 1e-10
RULE = ('cross product operator {+,-,*,/} x form {binary, reflected, in-place} x other-operand kind {UTPM, python int/float/'
        'complex, numpy float64/int64/complex128/float32, 0-d array, ndarray int/float/complex} x shape relation {same, '
        'broadcast, constant array with more dimensions, leading axis == P, leading axis == D} x D in 1..6 x P in 1..3 x '
        'data class {small integers, random floats, complex}; plus powers with python/numpy int, float, complex exponent, '
        'scalar base and polynomial exponent. Result shape must equal numpy.broadcast_shapes; every sampled element is '
        'compared at every order and direction with exact rational series arithmetic (tolerance 1e-12 x majorant). '
        'class = (op, form, kind, shape relation, D, P, data class); non-trivial = D>=2 or a broadcast/constant operand')
ASSUMPTIONS = ['Fraction arithmetic is exact; numpy.broadcast_shapes/broadcast_to define the expected element mapping',
               'in-place forms with a real left and complex right operand are exempt (statement: "non-in-place result")',
               'array-valued exponents are not part of the statement and are not exercised']

OPS = {'add': operator.add, 'sub': operator.sub, 'mul': operator.mul, 'div': operator.truediv}
IOPS = {'add': operator.iadd, 'sub': operator.isub, 'mul': operator.imul, 'div': operator.itruediv}
SCALAR_KINDS = ['int', 'float', 'complex', 'npf64', 'npi64', 'npc128', 'npf32', '0d', 'bool', 'fraction', 'npbool', 'npf16', '0d_int']
ARRAY_KINDS = ['arr_f', 'arr_i', 'arr_c', 'arr_u8', 'arr_sub', 'arr_bool']


class _Sub(np.ndarray):
    """a trivial ndarray subclass (as returned by many libraries)"""
XSHAPES = [(), (1,), (3,), (2, 3), (1, 3), (2, 1), (2, 1, 2), (2, 2, 3), (3, 3)]


def _bcast_partner(rng, xs, P, D, rel):
    """shape of the other operand for a given relation to the polynomial's shape xs"""
    if rel == 'same':
        return tuple(xs)
    if rel == 'bcast':
        if not xs:
            return ()
        s = list(xs)
        i = int(rng.integers(len(s)))
        if s[i] == 1:
            s[i] = int(rng.integers(2, 4))
        else:
            s[i] = 1
        if rng.random() < 0.3 and len(s) > 1:
            s = s[1:]
        return tuple(s)
    if rel == 'lower_rank':
        return tuple(xs[1:]) if len(xs) > 1 else ()
    if rel == 'more_dims':
        return (int(rng.integers(2, 4)),) + tuple(xs)
    if rel == 'lead_P':
        return (P,) + tuple(xs)
    if rel == 'lead_D':
        return (D,) + tuple(xs)
    raise KeyError(rel)


def cases(tier, seed):
    out = []
    Ds = [1, 2, 3, 4, 6] if tier == 'quick' else [1, 2, 3, 4, 5, 6, 8]
    reps = 1 if tier == 'quick' else 300
    for op in OPS:
        for form in ('binary', 'reflected', 'inplace'):
            for kind in ['utpm'] + SCALAR_KINDS + ARRAY_KINDS:
                rels = ['scalar'] if kind in SCALAR_KINDS else ['same', 'bcast', 'lower_rank', 'more_dims', 'lead_P', 'lead_D']
                for rel in rels:
                    if form == 'reflected' and kind == 'utpm':
                        continue
                    for D in Ds:
                        for rep in range(reps):
                            s = case_seed('C02', seed, op, form, kind, rel, D, rep)
                            r = np.random.default_rng(s)
                            out.append({'kind': 'arith', 'seed': s, 'params': {
                                'op': op, 'form': form, 'other': kind, 'rel': rel, 'D': D, 'P': [1, 2, 3, 1, 2, 3, 5, 7, 1, 2, 3, 33, 40][int(r.integers(13))],
                                'xshape': list(XSHAPES[int(r.integers(len(XSHAPES)))]),
                                'data': ['ints', 'random', 'complex', 'random', 'tiny'][int(r.integers(5))],
                                'odata': ['ints', 'random', 'complex', 'random', 'tiny'][int(r.integers(5))],
                                'layout': ['C', 'C', 'F', 'T', 'strided', 'reversed'][int(r.integers(6))]}})
    for op in OPS:
        for form in ('binary', 'inplace'):
            for D in ((33, 40) if tier == 'quick' else (32, 33, 40, 64, 65)):
                s = case_seed('C02', seed, 'highD', op, form, D)
                out.append({'kind': 'arith', 'seed': s, 'params': {'op': op, 'form': form, 'other': 'utpm', 'rel': 'same', 'D': D, 'P': 1 + D % 2,
                                                                  'xshape': [2], 'data': 'random', 'odata': 'random', 'layout': 'C'}})
                out.append({'kind': 'arith', 'seed': s + 1, 'params': {'op': op, 'form': form, 'other': 'utpm', 'rel': 'same', 'D': D, 'P': 1 + D % 2,
                                                                      'xshape': [2], 'data': 'geometric', 'odata': 'geometric', 'layout': 'C'}})
    for D in ((33, 40) if tier == 'quick' else (32, 33, 40, 64, 65)):
        for n in (2, 3, 5):
            for pk in ('pow_pyint', 'pow_npint'):
                for dk in ('random', 'geometric'):
                    s = case_seed('C02', seed, 'highD-pow', pk, D, n, dk)
                    out.append({'kind': 'pow', 'seed': s, 'params': {'op': pk, 'D': D, 'P': 1, 'xshape': [2], 'data': dk, 'n': n}})
    for pk in ('pow_pyint', 'pow_npint', 'pow_float', 'pow_npfloat', 'pow_complex', 'rpow_float', 'rpow_int', 'rpow_complex', 'pow_utpm', 'pow_utpm_bcast'):
        for D in Ds:
            for rep in range(2 * reps):
                s = case_seed('C02', seed, pk, D, rep)
                r = np.random.default_rng(s)
                out.append({'kind': 'pow', 'seed': s, 'params': {'op': pk, 'D': D, 'P': [1, 2, 3, 1, 2, 3, 5, 7, 1, 2, 3, 33, 40][int(r.integers(13))],
                                                                  'xshape': list(XSHAPES[int(r.integers(len(XSHAPES)))]),
                                                                  'data': ['random', 'complex', 'tiny'][int(r.integers(3)) if pk.startswith('pow_utpm') else int(r.integers(2))]}})
    # polynomials of different precision (a float32 operand next to a float64 one) and of different direction counts (one direction
    # next to P): the result has the wider type AND its accuracy, in-place forms agree with the binary expression
    for D in Ds[:4]:
        for rep in range(reps):
            out.append({'kind': 'mixedprec', 'seed': case_seed('C02', seed, 'mixedprec', D, rep), 'params': {'D': D, 'P': 1 + (D + rep) % 3}})
    # array-valued bases and exponents (b ** x, x ** e with b, e plain arrays of any integer / float width and any broadcastable
    # shape, also with more axes than x and with a single element): element by element the result is what the scalar spelling gives
    for D in Ds[:4]:
        for rep in range(2 * reps):
            for side in ('base', 'exponent'):
                out.append({'kind': 'powarr', 'seed': case_seed('C02', seed, 'powarr', side, D, rep), 'params': {'D': D, 'P': 1 + (D + rep) % 3, 'side': side}})
    # in-place forms with a constant array that does NOT broadcast into the polynomial (more axes; leading axis of length P, 1, 2):
    # x op= a cannot have the coefficients of x op a (another shape) - it has to be refused, as NumPy refuses x_0 op= a
    for D in Ds[:3]:
        for rep in range(reps):
            out.append({'kind': 'inplace_wide', 'seed': case_seed('C02', seed, 'inplace_wide', D, rep), 'params': {'D': D, 'P': 1 + (D + rep) % 3}})
    return out


def required():
    req = []
    for op in OPS:
        for form in ('binary', 'reflected', 'inplace'):
            req.append('%s:%s' % (op, form))
    return req + ['pow_pyint', 'pow_npint', 'pow_float', 'rpow_float', 'pow_utpm', 'powarr:base', 'powarr:exponent', 'inplace_wide']


def _mk_other(rng, kind, shape, data, divisor):
    """value of the non-polynomial operand; non-zero (|v|>=0.5) when used as divisor base"""
    def nz(v):
        return v if not divisor else np.where(np.abs(v) < 0.5, np.where(np.real(v) >= 0, 1.5, -1.5), v)
    if kind == 'int':
        return int(nz(np.array(int(rng.integers(-4, 5)))))
    if kind == 'float':
        return float(nz(np.array(rng.normal() * 2)))
    if kind == 'complex':
        return complex(rng.normal() + 1.5, rng.normal())
    if kind == 'npf64':
        return np.float64(nz(np.array(rng.normal() * 2)))
    if kind == 'npi64':
        return np.int64(nz(np.array(int(rng.integers(-4, 5)))))
    if kind == 'npc128':
        return np.complex128(complex(rng.normal() + 1.5, rng.normal()))
    if kind == 'npf32':
        return np.float32(nz(np.array(np.round(rng.normal() * 2, 2))))
    if kind == '0d':
        return np.array(float(nz(np.array(rng.normal() * 2))))
    if kind == 'bool':
        return True
    if kind == 'npbool':
        return np.bool_(True)
    if kind == 'fraction':
        from fractions import Fraction
        return Fraction(int(rng.choice([-7, -3, -1, 1, 3, 5, 9])), 4)
    if kind == 'npf16':
        return np.float16(float(nz(np.array(np.round(rng.normal() * 2, 1)))))
    if kind == '0d_int':
        return np.array(int(nz(np.array(int(rng.integers(-4, 5))))))
    if kind == 'arr_sub':
        return np.asarray(nz(rng.normal(size=shape) * 2)).view(_Sub)
    if kind == 'arr_bool':
        return np.ones(shape, dtype=bool) if divisor else (rng.random(size=shape) < 0.7)
    if kind == 'arr_f':
        return nz(rng.normal(size=shape) * 2)
    if kind == 'arr_i':
        return nz(rng.integers(-4, 5, size=shape)).astype(np.int64)
    if kind == 'arr_c':
        return nz(rng.normal(size=shape) * 2) + 1j * rng.normal(size=shape)
    if kind == 'arr_u8':
        return rng.integers(1, 6, size=shape).astype(np.uint8)
    raise KeyError(kind)


def _mk_utpm_data(rng, D, P, shape, data, divisor):
    shape = tuple(shape)
    if data == 'ints':
        x = rng.integers(-3, 4, size=(D, P) + shape).astype(float)
        if divisor:
            x[0] = rng.choice([-4.0, -2.0, -1.0, 1.0, 2.0, 4.0], size=(P,) + shape)
    elif data == 'complex':
        x = rng.normal(size=(D, P) + shape) + 1j * rng.normal(size=(D, P) + shape)
        if divisor:
            x[0] = (rng.uniform(0.6, 2, size=(P,) + shape)) * np.exp(2j * np.pi * rng.uniform(size=(P,) + shape))
    else:
        x = rng.normal(size=(D, P) + shape)
        if divisor:
            x[0] = rng.uniform(0.6, 2.5, size=(P,) + shape) * rng.choice([-1.0, 1.0], size=(P,) + shape)
        if data == 'geometric':
            # coefficients growing or decaying geometrically with the order (a curve with radius of convergence 1/2 resp. 2):
            # small and large coefficients side by side, every one of them has to be right relative to its own size
            r_ = [2.0, 0.5][int(rng.integers(2))]
            x = x * (r_ ** np.arange(D)).reshape((D,) + (1,) * (x.ndim - 1))
        if data == 'tiny' and D > 1:
            x[1:] *= 10.0 ** -float(rng.integers(8, 13))       # an almost constant polynomial is still a polynomial
    return x


def _ser_of(operand, is_utpm, p, idx, D):
    if is_utpm:
        return Q.ser(operand[(slice(None), p) + idx])
    v = operand[idx] if isinstance(operand, np.ndarray) and operand.ndim else operand
    if isinstance(v, np.ndarray):
        v = v[()]
    if isinstance(v, (np.float32, np.float16)):
        v = float(v)
    if isinstance(v, (np.bool_, bool)):
        v = int(v)
    if isinstance(v, (np.integer,)):
        v = int(v)
    return Q.const(v, D)


def _exact(op, a, b):
    if op == 'add':
        return Q.add(a, b), Q.majorant('add', a, b)
    if op == 'sub':
        return Q.sub(a, b), Q.majorant('sub', a, b)
    if op == 'mul':
        return Q.mul(a, b), Q.majorant('mul', a, b)
    return Q.div(a, b), Q.majorant('div', a, b)


def _cmp(got, ref, maj, tau):
    """max err/maj over d; got: complex/float coefficients; ref/maj: QC lists"""
    worst = 0.0
    for g, r, m in zip(got, ref, maj):
        if not np.isfinite(g):
            return float('inf')
        gq = Q.QC.of(complex(g)) if np.iscomplexobj(g) else Q.QC.of(float(g))
        e = (gq - r).abs1()
        den = m.re if m.re > Q.Fraction(1, 10 ** 290) else Q.Fraction(1, 10 ** 290)          # (terms below 1e-290 underflow legitimately)
        q = float(e / den)
        if q > worst:
            worst = q
    return worst


def _mixedprec(ctx, case):
    p = case['params']; rng = gen.rng_of(case)
    D, P = p['D'], p['P']
    import operator
    for shape in [(), (3,), (2, 2)]:
        xw = rng.uniform(0.5, 2.0, size=(D, P) + shape)                                   # float64
        yn = rng.uniform(0.5, 2.0, size=(D, P) + shape).astype(np.float32)                # float32: exactly representable in float64
        for opn, op in (('add', operator.add), ('sub', operator.sub), ('mul', operator.mul), ('truediv', operator.truediv), ('pow', operator.pow)):
            for order in ('wide op narrow', 'narrow op wide'):
                a, b = (xw, yn) if order == 'wide op narrow' else (yn, xw)
                try:
                    got = op(UTPM(a.copy()), UTPM(b.copy()))
                    ref = op(UTPM(a.astype(np.float64)), UTPM(b.astype(np.float64)))
                except Exception as e:
                    ctx.violation('mixed-precision:%s:raises' % opn, {'op': opn, 'order': order, 'error': repr(e)[:160]}); return
                sc = np.maximum.accumulate(np.abs(ref.data), axis=0) + 1e-300
                err = float(np.max(np.abs(got.data - ref.data) / sc))
                if got.data.dtype != np.float64 or not err <= 1e-12:
                    ctx.violation('mixed-precision:%s:%s' % (opn, 'dtype' if got.data.dtype != np.float64 else 'accuracy'),
                                  {'op': opn, 'order': order, 'D': D, 'P': P, 'shape': shape, 'result_dtype': str(got.data.dtype), 'relative_error': err}); return
                ctx.ok('mixed-precision:' + opn, ('mixedprec', opn, order, D, P, shape), noise=err)
        # in-place forms: the left operand keeps its type; a wide left operand keeps its accuracy
        for opn, iop, op in (('iadd', operator.iadd, operator.add), ('isub', operator.isub, operator.sub), ('imul', operator.imul, operator.mul),
                             ('itruediv', operator.itruediv, operator.truediv)):
            X = UTPM(xw.copy())
            try:
                iop(X, UTPM(yn.copy()))
            except Exception as e:
                ctx.violation('mixed-precision:%s:raises' % opn, {'op': opn, 'error': repr(e)[:160]}); return
            ref = op(UTPM(xw.copy()), UTPM(yn.astype(np.float64)))
            err = float(np.max(np.abs(X.data - ref.data) / (np.maximum.accumulate(np.abs(ref.data), axis=0) + 1e-300)))
            if not err <= 1e-12:
                ctx.violation('mixed-precision:%s:accuracy' % opn, {'op': opn, 'D': D, 'P': P, 'shape': shape, 'relative_error': err}); return
            ctx.ok('mixed-precision:' + opn, ('mixedprec', opn, D, P, shape), noise=err)
            # one direction on the right, P on the left: the in-place form broadcasts it like the binary expression, and an operand that
            # cannot be used leaves the left operand as it was
            if P > 1:
                y1 = rng.uniform(0.5, 2.0, size=(D, 1) + shape)
                X = UTPM(xw.copy())
                try:
                    ref = op(UTPM(xw.copy()), UTPM(y1.copy()))
                except Exception:
                    continue
                try:
                    iop(X, UTPM(y1.copy()))
                except Exception as e:
                    ctx.violation('one-direction-operand:%s:raises' % opn, {'op': opn, 'D': D, 'P': P, 'shape': shape, 'error': repr(e)[:120],
                                                                           'left_operand_left_intact': bool(np.array_equal(X.data, xw))}); return
                if not np.allclose(X.data, ref.data, rtol=1e-13, atol=0):
                    ctx.violation('one-direction-operand:%s:value' % opn, {'op': opn, 'D': D, 'P': P, 'shape': shape}); return
                ctx.ok('one-direction-operand:' + opn, ('onedir', opn, D, P, shape))


def run_case(ctx, case):
    if case['kind'] == 'pow':
        return _pow(ctx, case)
    if case['kind'] == 'mixedprec':
        return _mixedprec(ctx, case)
    if case['kind'] == 'powarr':
        return _powarr(ctx, case)
    if case['kind'] == 'inplace_wide':
        return _inplace_wide(ctx, case)
    p = case['params']
    rng = gen.rng_of(case)
    op, form, kind, rel, D, P, data = p['op'], p['form'], p['other'], p['rel'], p['D'], p['P'], p['data']
    xs = tuple(p['xshape'])
    other_is_utpm = kind == 'utpm'
    # which operand is the divisor?  binary/inplace: other ; reflected: the polynomial
    x_div = (op == 'div' and form == 'reflected')
    o_div = (op == 'div' and form != 'reflected')
    if kind in ('complex', 'npc128', 'arr_c') and data == 'ints':
        data = 'random'
    xd = _mk_utpm_data(rng, D, P, xs, data, x_div)
    if other_is_utpm:
        if form == 'inplace' and rel in ('more_dims', 'lead_P', 'lead_D'):
            rel = 'lower_rank'
        os_ = _bcast_partner(rng, xs, P, D, rel)
        od = _mk_utpm_data(rng, D, P, os_, p.get('odata', data), o_div)
        other = UTPM(gen.relayout(od, p.get('layout', 'C')))
    elif kind in SCALAR_KINDS:
        os_ = ()
        other = _mk_other(rng, kind, (), data, o_div)
        od = other
    else:
        os_ = _bcast_partner(rng, xs, P, D, rel)
        other = _mk_other(rng, kind, os_, data, o_div)
        od = other.copy()
    try:
        out_shape = np.broadcast_shapes(xs, os_)
    except ValueError:
        ctx.skip('not-broadcastable'); return
    if form == 'inplace' and out_shape != xs:
        # numpy itself rejects in-place broadcasting into a smaller left operand
        os_ = xs if not (kind in SCALAR_KINDS) else ()
        if other_is_utpm:
            od = _mk_utpm_data(rng, D, P, os_, p.get('odata', data), o_div); other = UTPM(gen.relayout(od, p.get('layout', 'C')))
        elif kind not in SCALAR_KINDS:
            other = _mk_other(rng, kind, os_, data, o_div); od = other.copy()
        out_shape = xs
        rel = 'same'
    if form == 'inplace' and kind == 'fraction':
        ctx.skip('numpy-rejects:ndarray op= Fraction (object -> float64 under same_kind casting)'); return
    other_cplx = np.iscomplexobj(od)
    if form == 'inplace' and other_cplx and not np.iscomplexobj(xd):
        ctx.skip('inplace-real-op-complex (exempt by the statement)'); return
    x = UTPM(gen.relayout(xd, p.get('layout', 'C')))
    label = '%s:%s' % (op, form)
    mech = '%s:%s:%s:%s' % (op, form, kind, rel)
    try:
        named = {'add': UTPM.add, 'sub': UTPM.sub, 'mul': [UTPM.mul, UTPM.multiply][D % 2], 'div': UTPM.div}
        use_named = (case_seed('C02', op, form, kind, rel, D, P, xs) % 4 == 0)       # the classmethod spelling of the operator
        # the classmethods accept out=: whatever they do with it, the value handed back is x op y, also when out is one of the operands
        okw = {}
        if use_named and other_is_utpm and D % 3 == 0:
            okw = {'out': [other, x, UTPM(np.zeros((D, P) + tuple(out_shape), dtype=np.result_type(x.data.dtype, other.data.dtype)))][P % 3]}
            if okw['out'].data.shape != (D, P) + tuple(out_shape):
                okw = {}
            xkeep, okeep = x.data.copy(), other.data.copy()
        if form == 'binary':
            r = named[op](x, other, **okw) if use_named else OPS[op](x, other)
        elif form == 'reflected':
            r = named[op](other, x, **okw) if use_named else OPS[op](other, x)
        else:
            r = IOPS[op](x, other)
        out_is_operand = bool(okw) and form != 'inplace' and (okw['out'] is x or okw['out'] is other)
    except Exception as e:
        ctx.violation(mech + ':raises:' + type(e).__name__, {'op': op, 'form': form, 'other': kind, 'rel': rel, 'D': D, 'P': P,
                                                             'xshape': xs, 'oshape': os_, 'error': repr(e)[:200]})
        return
    if not isinstance(r, UTPM):
        ctx.violation(mech + ':type', {'got': type(r).__name__, 'xshape': xs, 'oshape': os_}); return
    if form == 'inplace' and r is not x:
        ctx.violation(mech + ':inplace-returns-new-object', {}); return
    if r.data.shape != (D, P) + tuple(out_shape):
        ctx.violation(mech + ':shape', {'got': r.data.shape, 'want': (D, P) + tuple(out_shape), 'xshape': xs, 'oshape': os_, 'D': D, 'P': P}); return
    # operands must be untouched (non in-place) -- C14 owns this, here only so a wrong reference is not blamed
    if form != 'inplace' and not out_is_operand and not np.array_equal(x.data, xd):
        ctx.violation(mech + ':left-operand-modified', {}); return
    # expected element mapping from numpy broadcasting of index arrays
    nx = int(np.prod(xs, dtype=int)); no = int(np.prod(os_, dtype=int))
    ix = np.broadcast_to(np.arange(nx).reshape(xs), out_shape)
    io = np.broadcast_to(np.arange(no).reshape(os_), out_shape)
    idxs = list(np.ndindex(*out_shape)) if out_shape else [()]
    if D > 20:
        idxs = idxs[:1]
    if len(idxs) > 5:
        idxs = [idxs[i] for i in rng.choice(len(idxs), size=5, replace=False)]
    worst = 0.0
    for idx in idxs:
        xi = np.unravel_index(int(ix[idx]), xs) if xs else ()
        oi = np.unravel_index(int(io[idx]), os_) if os_ else ()
        for pp in range(P):
            a = _ser_of(xd, True, pp, xi, D)
            b = _ser_of(od, other_is_utpm, pp, oi, D)
            if form == 'reflected':
                ref, maj = _exact(op, b, a)
            else:
                ref, maj = _exact(op, a, b)
            got = r.data[(slice(None), pp) + idx]
            e = _cmp(got, ref, maj, TAU)
            worst = max(worst, e)
            tau = TAU if kind != 'npf32' else 1e-6        # a float32 operand legitimately yields float32-accurate arithmetic
            if not e <= tau:
                imag_lost = (not np.iscomplexobj(r.data)) and any(not v.im == 0 for v in ref)
                ctx.violation(mech + (':imag-dropped' if imag_lost else ':value'),
                              {'op': op, 'form': form, 'other': kind, 'rel': rel, 'D': D, 'P': P, 'xshape': xs, 'oshape': os_,
                               'element': idx, 'direction': pp, 'got': [complex(v) for v in got][:4], 'want': [complex(v) for v in ref][:4],
                               'err_over_majorant': e})
                return
    ctx.ok(label, (op, form, kind, rel, D, P, data, p.get('odata') if other_is_utpm else None, p.get('layout')), noise=worst,
           sample={'op': op, 'form': form, 'other': kind, 'rel': rel, 'D': D, 'P': P, 'xshape': xs, 'oshape': os_, 'data': data,
                   'max_err_over_majorant': worst} if rng.random() < 0.01 else None)


def _powarr(ctx, case):
    """b ** x and x ** e with a plain array b / e: NumPy broadcasts the array against x_0, so must the polynomial result; element
    (i) of it is the scalar spelling float(b_i) ** x_j resp. x_j ** float(e_i) (decided against the mpmath oracle by the `pow` kind)."""
    p = case['params']; rng = gen.rng_of(case)
    D, P, side = p['D'], p['P'], p['side']
    xs = [(3,), (2, 3), (1,), (), (3, 1)][int(rng.integers(5))]
    cplx = rng.random() < 0.25
    xd = gen.series_data(rng, D, P, xs, 'R' if side == 'base' else 'pos', 'random', cplx and side == 'base')
    # the shape of the array: that of x, a broadcastable one, one with more axes, a single element with more axes than x
    shapes = [xs, (1,) * len(xs), (2,) + xs, (1, 1) + xs, (1,) * (len(xs) + 1), (1, 1), xs[-1:]]
    ashp = shapes[int(rng.integers(len(shapes)))]
    n = int(np.prod(ashp, dtype=int))
    if side == 'base':
        dt = [np.uint8, np.int8, np.int16, np.int64, np.float16, np.float32, np.float64][int(rng.integers(7))]
        vals = rng.integers(2, 8, size=n).astype(float)
        if np.dtype(dt).kind == 'f':
            vals = vals + 0.5
        if cplx and np.dtype(dt).kind != 'u' and rng.random() < 0.5:
            vals = -vals                    # a negative real base of a complex polynomial: the principal value
        arr = vals.reshape(ashp).astype(dt)
        call = lambda x: arr ** x
        one = lambda b, xe: (complex(float(b)) if (cplx and float(b) < 0) else float(b)) ** xe
    else:
        dt = [np.int8, np.int64, np.float32, np.float64, np.float64][int(rng.integers(5))]
        vals = rng.integers(-3, 5, size=n).astype(float)
        if np.dtype(dt).kind == 'f' and rng.random() < 0.7:
            vals = vals + 0.5
        arr = vals.reshape(ashp).astype(dt)
        call = lambda x: x ** arr
        one = lambda e, xe: xe ** (int(e) if float(e) == int(e) else float(e))
    mech = 'powarr:' + side
    info = {'side': side, 'D': D, 'P': P, 'xshape': list(xs), 'array_shape': list(ashp), 'array_dtype': str(np.dtype(dt)), 'x_dtype': str(xd.dtype)}
    try:
        want_shape = np.broadcast_shapes(xs, ashp)
        r = call(UTPM(xd.copy()))
    except Exception as ex:
        ctx.violation(mech + ':raises:' + type(ex).__name__, dict(info, error=repr(ex)[:200])); return
    if not isinstance(r, UTPM) or r.data.shape != (D, P) + tuple(want_shape):
        ctx.violation(mech + ':shape', dict(info, got=list(getattr(getattr(r, 'data', None), 'shape', ())), want=[D, P] + list(want_shape))); return
    xb = np.broadcast_to(xd.reshape((D, P) + (1,) * (len(want_shape) - len(xs)) + tuple(xs)), (D, P) + tuple(want_shape)); ab = np.broadcast_to(arr, want_shape)
    worst = 0.0
    for idx in (list(np.ndindex(*want_shape)) if want_shape else [()]):
        xe = UTPM(np.ascontiguousarray(xb[(slice(None), slice(None)) + idx]).reshape(D, P).copy())
        try:
            ref = one(ab[idx], xe).data
        except Exception as ex:
            ctx.skip('powarr:scalar-spelling-raises', repr(ex)[:80]); return
        got = r.data[(slice(None), slice(None)) + idx]
        if not np.all(np.isfinite(ref)):
            continue
        for pp in range(P):
            sc = np.max(np.abs(ref[:, pp])) + 1e-300
            e = float(np.max(np.abs(got[:, pp] - ref[:, pp])) / sc) if np.all(np.isfinite(got[:, pp])) else float('inf')
            worst = max(worst, e)
            if not (e <= 1e-11):
                ctx.violation(mech + ':value', dict(info, index=list(idx), direction=pp, relative_error=e, array_entry=float(ab[idx]))); return
    ctx.ok(mech, ('powarr', side, D, P, len(xs), len(ashp), str(np.dtype(dt)), cplx), noise=worst)


def _inplace_wide(ctx, case):
    """x op= a with a constant array a whose broadcast against x is larger than x: "the in-place forms give the same coefficients as
    the corresponding binary expression" cannot hold (x op a has another shape), so the only sound outcomes are an exception (what
    NumPy does for x_0 op= a) or - never observed - a result equal to the binary expression."""
    p = case['params']; rng = gen.rng_of(case)
    D, P = p['D'], p['P']
    for opname in ('iadd', 'isub', 'imul', 'itruediv'):
        for xs in ((3,), (2, 3), ()):
            for k in (P, 1, 2, 3):
                xd = gen.series_data(rng, D, P, xs, 'R', 'random', False)
                a = rng.uniform(1.0, 2.0, size=(k,) + xs)
                x0 = xd[0, 0].copy()
                try:
                    getattr(operator, opname)(x0, a); numpy_accepts = True
                except Exception:
                    numpy_accepts = False
                if numpy_accepts:          # (k = 1 with a scalar-shaped x is no widening for NumPy either ... it is: shape () vs (1,) raises)
                    continue
                x = UTPM(xd.copy())
                try:
                    r = getattr(operator, opname)(x, a)
                except Exception:
                    ctx.ok('inplace_wide', ('inplace_wide', opname, len(xs), k == P, 'refused')); continue
                b = getattr(operator, opname[1:])(UTPM(xd.copy()), a)
                if not isinstance(r, UTPM) or r.data.shape != b.data.shape or not np.allclose(r.data, b.data, rtol=1e-12, atol=0):
                    ctx.violation('inplace_wide:%s:accepted-and-differs-from-binary' % opname,
                                  {'op': opname, 'D': D, 'P': P, 'xshape': list(xs), 'array_shape': list(a.shape),
                                   'inplace_result_shape': list(getattr(getattr(r, 'data', None), 'shape', ())), 'binary_result_shape': list(b.data.shape)}); return
                ctx.ok('inplace_wide', ('inplace_wide', opname, len(xs), k == P, 'equal-to-binary'))


def _pow(ctx, case):
    p = case['params']
    rng = gen.rng_of(case)
    pk, D, P, xs, data = p['op'], p['D'], p['P'], tuple(p['xshape']), p['data']
    cplx = data == 'complex'
    mech = pk
    if pk in ('pow_pyint', 'pow_npint'):
        n = int(rng.integers(-3, 6)) if rng.random() < 0.6 else int(rng.integers(6, 14))          # exponents beyond the small ones too
        n = case['params'].get('n', n)
        big = 'n' not in case['params'] and D <= 6 and case['seed'] % 4 == 0
        if big:
            n = int(rng.choice([64, 65, 66, 100, 129]))          # exponents beyond any small-case table
        xd = _mk_utpm_data(rng, D, P, xs, data, n < 0)
        if big:
            xd[0] = np.where(rng.random(size=xd[0].shape) < 0.5, 0.0, np.clip(xd[0].real, -1.1, 1.1))          # vanishing base coefficients: x ** n = O(t^n)
        # integer exponents in every spelling NumPy accepts
        e = [n, bool(n) if n in (0, 1) else n][int(rng.integers(2))] if pk == 'pow_pyint' else \
            [np.int64(n), np.int32(n), np.int8(n) if abs(n) < 128 else np.int16(n), np.array(n), np.array(n, dtype=np.int16)][int(rng.integers(5))]
        if n >= 0 and rng.random() < 0.25:
            # a non-negative integer exponent written as a float: x ** 2.0 is the polynomial x ** 2, also at base points with zeros
            e = [float(n), np.float64(n), np.float32(n)][int(rng.integers(3))]
        mech = '%s:%s' % (pk, 'neg' if n < 0 else ('zero' if n == 0 else 'pos'))
        call = lambda x: x ** e
        exact = lambda a: (Q.powi(a, n), Q.majorant('powi', a, n=n))
        yd = None
    elif pk in ('pow_float', 'pow_npfloat', 'pow_complex'):
        xd = gen.series_data(rng, D, P, xs, 'pos', 'random', cplx)
        rr = [0.5, 2.5, -1.5, 1.0 / 3, 2.00001, 3.000001, 1.000001, 0.999999][int(rng.integers(8))]          # also exponents that are almost, but not, integers
        if pk == 'pow_complex':
            # a complex exponent, also one whose imaginary part is zero (the result is complex all the same: NumPy's x_0 ** (0.5+0j)),
            # then also on negative real base points, where the principal value has an imaginary part
            rr = complex(rr, [0.75, -1.25, 0.0, 0.0][int(rng.integers(4))])
            if rr.imag == 0.0 and not cplx and rng.random() < 0.6:
                xd = -xd
        e = rr if pk != 'pow_npfloat' else [np.float64(rr), np.array(rr), np.float32(rr) if rr in (0.5, 2.5, -1.5) else np.float64(rr)][int(rng.integers(3))]
        call = lambda x: x ** e
        mpf = lambda z: mp.exp(O.num(rr) * mp.log(z))
        exact = None; yd = None
    elif pk.startswith('rpow'):
        xd = gen.series_data(rng, D, P, xs, 'R', 'random', cplx)
        b = {'rpow_float': 2.5, 'rpow_int': 3, 'rpow_complex': 1.5 + 0.5j}[pk]
        if pk in ('rpow_float', 'rpow_int') and cplx and rng.random() < 0.5:
            b = -b                            # a negative Python number as the base of a complex polynomial: the principal value, like NumPy's (-2.5) ** z_0
        if pk == 'rpow_complex' and rng.random() < 0.4:
            b = complex(-2.0, 0.0)            # a negative number given as a complex base: the principal value, log(-2+0j) = log 2 + i pi
        # the base in the spellings NumPy accepts: scalars of lower precision are promoted to the precision of the polynomial (as in
        # numpy.float32(2.5) ** x_0), so the result is the same to working accuracy
        bs = b
        if pk == 'rpow_float':
            bs = [b, np.float64(b), np.float32(b), np.float16(b), np.array(b, dtype=np.float32)][int(rng.integers(5))]
        elif pk == 'rpow_complex' and rng.random() < 0.4 and b.imag != 0:
            bs = np.complex64(b)
        elif pk == 'rpow_int':
            bs = [b, np.int16(b), np.uint8(b) if b >= 0 else np.int8(b), float(b)][int(rng.integers(4))]
        call = lambda x: bs ** x
        mpf = lambda z: mp.exp(z * mp.log(O.num(b)))
        exact = None; yd = None
        # the same numerical value was used as a base before, in other spellings (single / half precision scalars, the complex
        # number with zero imaginary part), and so was its negative
        for other in [np.float32(b.real), np.float16(b.real), complex(b), np.complex64(b), -b, np.float32(-b.real), complex(-b.real, 0.0)]:
            if rng.random() < 0.6:
                try:
                    other ** UTPM(xd[:1, :1].copy())
                except Exception:
                    pass
    else:
        xd = gen.series_data(rng, D, P, xs, 'pos', 'random', False)
        if data == 'tiny':
            xd *= 1e-20          # a base polynomial of tiny magnitude: log x = log(1e-20) + log(u), nothing singular about it
        ys = xs if pk == 'pow_utpm' else _bcast_partner(rng, xs, P, D, 'bcast')
        yd = gen.series_data(rng, D, P, ys, 'R', 'random', False)
        if data != 'tiny' and rng.random() < 0.25:
            # a complex polynomial exponent on a real base, also a negative one (principal value, as for the scalar spelling x ** (2+1j))
            yd = yd + 1j * gen.series_data(rng, D, P, ys, 'R', 'random', False)
            if rng.random() < 0.6:
                xd = -xd
        call = lambda x: x ** UTPM(yd.copy())
        exact = None
    x = UTPM(xd.copy())
    if not pk.startswith('rpow') and rng.random() < 0.3:
        # the augmented form x **= e: whatever object it returns, its value is x ** e
        mech = mech + ':augmented'
        if pk.startswith('pow_utpm'):
            call = lambda x_: operator.ipow(x_, UTPM(yd.copy()))
        else:
            call = lambda x_: operator.ipow(x_, e)
    try:
        r = call(x)
    except Exception as ex:
        ctx.violation(mech + ':raises:' + type(ex).__name__, {'op': pk, 'D': D, 'P': P, 'xshape': xs, 'error': repr(ex)[:200]}); return
    ys_ = yd.shape[2:] if yd is not None else ()
    out_shape = np.broadcast_shapes(xs, ys_)
    if not isinstance(r, UTPM) or r.data.shape != (D, P) + tuple(out_shape):
        ctx.violation(mech + ':shape', {'got': getattr(getattr(r, 'data', None), 'shape', None), 'want': (D, P) + tuple(out_shape)}); return
    nx = int(np.prod(xs, dtype=int)); ny = int(np.prod(ys_, dtype=int))
    ix = np.broadcast_to(np.arange(nx).reshape(xs), out_shape)
    iy = np.broadcast_to(np.arange(ny).reshape(ys_), out_shape)
    idxs = list(np.ndindex(*out_shape)) if out_shape else [()]
    if len(idxs) > 3:
        idxs = [idxs[i] for i in rng.choice(len(idxs), size=3, replace=False)]
    worst = 0.0
    for idx in idxs:
        xi = np.unravel_index(int(ix[idx]), xs) if xs else ()
        for pp in range(P):
            xsr = xd[(slice(None), pp) + xi]
            got = r.data[(slice(None), pp) + idx]
            if exact is not None:
                ref, maj = exact(Q.ser(xsr))
                e = _cmp(got, ref, maj, TAU); tau = TAU
                refl = [complex(v) for v in ref]
            else:
                if yd is not None:
                    yi = np.unravel_index(int(iy[idx]), ys_) if ys_ else ()
                    ysr = [O.num(v) for v in yd[(slice(None), pp) + yi]]
                    x0m = O.num(xsr[0])          # closed-form Taylor coefficients of log at x0 (valid for tiny x0, unlike numerical differentiation)
                    lk = [mp.log(x0m)] + [(-1) ** (k - 1) / (k * x0m ** k) for k in range(1, D)]
                    xm = [O.num(v) for v in xsr]
                    lx = O.compose(lk, xm); mlx = O.compose([abs(v) for v in lk], [abs(v) for v in xm])
                    w = O.mul(ysr, lx); mw = O.mul([abs(v) for v in ysr], mlx)
                    ek = O.taylor_coeffs(mp.exp, w[0], D - 1)
                    ref = O.compose(ek, w); maj = O.compose([abs(v) for v in ek], [abs(mw[0])] + mw[1:])
                else:
                    ref, maj = O.series(mpf, list(xsr))
                e = O.err_over_maj(list(got), ref, maj); tau = TAU_MP
                refl = [complex(v) for v in ref]
            worst = max(worst, e)
            if not e <= tau:
                imag_lost = (not np.iscomplexobj(r.data)) and any(abs(v.imag) > 1e-9 for v in refl)
                ctx.violation(mech + (':imag-dropped' if imag_lost else ':value'),
                              {'op': pk, 'D': D, 'P': P, 'xshape': xs, 'element': idx, 'direction': pp,
                               'got': [complex(v) for v in got][:4], 'want': refl[:4], 'err_over_majorant': e})
                return
    ctx.ok(pk, (pk, D, P, xs, data), noise=worst)


def finish(ctx):
    from .. import core
    return core.finish(ctx, required(), RULE, assumptions=ASSUMPTIONS)
