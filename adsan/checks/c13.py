"""C13 - shape-manipulating operations act slice-wise like NumPy, with view semantics.
Monitor: shadow postcondition (O-np): op(x).data[d,p] == numpy_op(x.data[d,p]) for every (d,p);
numpy.shares_memory of the result against NumPy's answer on a plain array; write-through tests against a NumPy
model that received the same write."""
import itertools
import numpy as np
import algopy
from algopy import UTPM
from ..core import case_seed
from .. import gen

PID = 'C13'
RULE = ('all basic index expressions over the alphabet {int, negative int, numpy int, slices with positive/negative steps, '
        'empty slice, Ellipsis, newaxis, tuples thereof}: exhaustive for rank <= 2, sampled for rank 3; get, set with right-hand '
        'sides {UTPM, broadcast UTPM, ndarray, scalar}, write-through views; reshape (incl. -1, int, non-contiguous input), '
        'transpose/T for rank 0..3, sum over every axis (positive/negative/None), tile (int, tuple, rank-changing), diag '
        '(vector, square/tall/wide matrix, k), triu/tril(k), trace, symvec/vecsym, neg, conjugate, real/imag, fft/ifft over '
        'every axis, zeros/ones(-like); D in {1,2,3}, P in {1,2,3}, values real/complex/non-finite (exact comparison); '
        'a class = (op, argument class, D, P, value kind); non-trivial = result has >= 1 element or the op moves data')
ASSUMPTIONS = ['NumPy applied to each (d,p) coefficient slice is the specification', 'data movement is compared bit-exactly (NaN == NaN)']
REQUIRED = ['getitem', 'getitem:view', 'setitem:utpm', 'setitem:bcast', 'setitem:leading1', 'setitem:ndarray', 'setitem:scalar', 'setitem:alias', 'writethrough', 'reshape', 'transpose',
            'transpose:view', 'sum', 'tile', 'diag', 'triu', 'tril', 'trace', 'symvec', 'vecsym', 'neg', 'conjugate', 'real', 'imag', 'fft', 'ifft',
            'zeros', 'ones', 'zeros_like', 'ones_like', 'protocol']

AX1 = [0, -1, 2, np.int64(1), slice(None), slice(1, None), slice(None, -1), slice(None, None, 2), slice(None, None, -1), slice(3, 0, -2), slice(1, 1), Ellipsis, None]


def index_exprs(rank, rng=None, nsample=None):
    """basic index expressions for an array of the given rank"""
    out = list(AX1)
    if rank >= 2:
        per = [0, -1, np.int64(1), slice(None), slice(1, None), slice(None, None, -1), slice(None, None, 2), slice(1, 1), None]
        for a in per:
            for b in per:
                out.append((a, b))
        for a in per:
            out.append((Ellipsis, a)); out.append((a, Ellipsis))
        out.append((None, Ellipsis, None))
    if rank >= 3:
        per = [0, -1, slice(None), slice(None, None, -1), slice(0, 1), None]
        trip = [t for t in itertools.product(per, repeat=3)]
        if rng is not None and nsample:
            sel = rng.choice(len(trip), size=min(nsample, len(trip)), replace=False)
            trip = [trip[i] for i in sel]
        out += trip
        out += [(Ellipsis, 0), (0, Ellipsis, -1), (slice(None), None, Ellipsis)]
    return out


def _valid(idx, shape):
    try:
        np.zeros(shape)[idx]
        return True
    except IndexError:
        return False


def _fmt(idx):
    def one(i):
        if isinstance(i, slice):
            return '%s:%s:%s' % (i.start, i.stop, i.step)
        if i is Ellipsis:
            return '...'
        if i is None:
            return 'newaxis'
        if isinstance(i, np.integer):
            return 'np.int64(%d)' % int(i)
        return str(i)
    return '(' + ','.join(one(i) for i in idx) + ')' if isinstance(idx, tuple) else one(idx)


def _idx_class(idx):
    its = idx if isinstance(idx, tuple) else (idx,)
    c = set()
    for i in its:
        if isinstance(i, slice):
            c.add('slice-neg' if (i.step or 1) < 0 else ('slice-step' if i.step else 'slice'))
        elif i is Ellipsis:
            c.add('ellipsis')
        elif i is None:
            c.add('newaxis')
        elif isinstance(i, np.integer):
            c.add('npint')
        else:
            c.add('int')
    return ('tuple:' if isinstance(idx, tuple) else '') + '+'.join(sorted(c))


SHAPES = {1: (4,), 2: (3, 4), 3: (2, 3, 2)}


def cases(tier, seed):
    out = []
    DP = [(1, 1), (2, 2), (3, 1), (2, 5)] if tier == 'quick' else [(1, 1), (2, 2), (3, 1), (2, 3), (4, 2), (1, 3), (5, 1), (3, 3)]
    kinds = ['real', 'complex', 'nonfinite']

    def add(kind, **prm):
        out.append({'kind': kind, 'seed': case_seed('C13', seed, kind, sorted((k, str(v)) for k, v in prm.items())), 'params': prm})
    for (D, P) in DP:
        for vk in kinds:
            for rank in (1, 2, 3):
                nidx = len(index_exprs(rank, np.random.default_rng(0), 40 if tier == 'quick' else 216))
                chunk = 40
                for c in range(0, nidx, chunk):
                    add('index', D=D, P=P, vals=vk, rank=rank, start=c, stop=min(nidx, c + chunk), nsample=40 if tier == 'quick' else 216)
            # degenerate extents: one element, one row / column, no element at all
            for alt in ((1,), (0,), (1, 4), (3, 1), (0, 3), (2, 1, 2), (1, 1, 1)):
                nidx = len(index_exprs(len(alt), np.random.default_rng(0), 40 if tier == 'quick' else 216))
                for c in range(0, nidx, 60):
                    add('index', D=D, P=P, vals=vk, rank=len(alt), start=c, stop=min(nidx, c + 60), nsample=40 if tier == 'quick' else 216, shape=list(alt))
            add('shapeops', D=D, P=P, vals=vk)
            add('reductions', D=D, P=P, vals=vk)
            add('construct', D=D, P=P, vals=vk)
            add('protocol', D=D, P=P, vals=vk)
    return out


def _vals(rng, shape, kind):
    v = rng.normal(size=shape)
    if kind == 'complex':
        v = v + 1j * rng.normal(size=shape)
    if kind == 'nonfinite' and v.size > 2:
        f = v.reshape(-1)
        f[rng.integers(f.size)] = np.inf; f[rng.integers(f.size)] = np.nan; f[rng.integers(f.size)] = -0.0
    return v


def _eq(a, b):
    a = np.asarray(a); b = np.asarray(b)
    return a.shape == b.shape and np.array_equal(a, b, equal_nan=True)


def _slicewise(y, x, f):
    """y: UTPM result, x: (D,P,...) input data; f: numpy op on one slice"""
    D, P = x.shape[:2]
    if not isinstance(y, UTPM) or y.data.shape[:2] != (D, P):
        return False, 'type/DP'
    for d in range(D):
        for p in range(P):
            ref = f(x[d, p])
            if not _eq(y.data[d, p], ref):
                return False, 'slice d=%d p=%d: shape %s vs %s' % (d, p, np.shape(y.data[d, p]), np.shape(ref))
    return True, ''


def run_case(ctx, case):
    rng = gen.rng_of(case)
    return globals()['_' + case['kind']](ctx, case['params'], rng)


def _protocol(ctx, p, rng):
    """the Python-level protocols an array-like offers - len, iteration, list(), unpacking, builtin sum / max / min, numpy.sum /
    numpy.transpose / numpy.trace dispatch, copy - act on the element axes like they act on the NumPy array of one coefficient slice"""
    import copy
    D, P, vk = p['D'], p['P'], p['vals']
    for shape in [(3,), (2, 3), (1, 2), (2, 2, 2), (4, 1), (1,)]:
        data = _vals(rng, (D, P) + shape, vk)
        x = UTPM(gen.relayout(data, gen.LAYOUTS[int(rng.integers(len(gen.LAYOUTS)))]))
        plain = data[0, 0]
        try:
            ln = len(x); items = list(x); it = [r for r in x]; first, *rest = x
        except Exception as e:
            ctx.violation('protocol:iteration:raises', {'shape': shape, 'error': repr(e)[:160]}); return
        if ln != len(plain) or len(items) != len(plain) or len(it) != len(plain) or len(rest) != len(plain) - 1:
            ctx.violation('protocol:len-or-number-of-items', {'shape': shape, 'len': ln, 'items': len(items), 'want': len(plain)}); return
        for i, (a, b) in enumerate(zip(items, it)):
            for e in (a, b, first if i == 0 else rest[i - 1]):
                if not isinstance(e, UTPM) or not _eq(e.data, data[(slice(None), slice(None), i)]):
                    ctx.violation('protocol:item-values', {'shape': shape, 'item': i, 'D': D, 'P': P}); return
        ctx.ok('protocol', ('iter', shape, D, P, vk))
        if vk == 'nonfinite':
            continue
        # builtin sum: 0 + x[0] + x[1] + ...  (sequential, so compared with the sequential NumPy sum)
        try:
            s_ = sum(x)
        except Exception as e:
            ctx.violation('protocol:builtin-sum:raises', {'shape': shape, 'error': repr(e)[:160]}); return
        ref = np.zeros_like(data[:, :, 0])
        for i in range(shape[0]):
            ref = ref + data[:, :, i]
        if not isinstance(s_, UTPM) or s_.data.shape != ref.shape or not np.allclose(s_.data, ref, rtol=1e-14, atol=1e-14 * np.max(np.abs(data))):
            ctx.violation('protocol:builtin-sum:value', {'shape': shape, 'D': D, 'P': P}); return
        for nm, f, g in (('numpy.sum', lambda: np.sum(x), lambda sl: np.sum(sl)), ('numpy.transpose', lambda: np.transpose(x), lambda sl: np.transpose(sl)),
                         ('numpy.trace', (lambda: np.trace(x)) if len(shape) == 2 else None, lambda sl: np.trace(sl)),
                         ('copy.copy', lambda: copy.copy(x), lambda sl: sl), ('copy.deepcopy', lambda: copy.deepcopy(x), lambda sl: sl),
                         ('abs', lambda: abs(x) if vk == 'real' and D == 1 else None, lambda sl: np.abs(sl))):
            if f is None:
                continue
            try:
                y = f()
            except Exception as e:
                ctx.skip('unsupported:protocol:' + nm); continue
            if y is None:
                continue
            if not isinstance(y, UTPM):
                ctx.skip('protocol:%s returns %s' % (nm, type(y).__name__)); continue
            ok = True
            for d in range(D):
                for pp in range(P):
                    r = np.asarray(g(data[d, pp]))
                    ok = ok and y.data[d, pp].shape == r.shape and np.allclose(y.data[d, pp], r, rtol=1e-13, atol=1e-13 * (1 + np.max(np.abs(data))))
            if not ok:
                ctx.violation('protocol:%s:value' % nm, {'shape': shape, 'D': D, 'P': P}); return
            if nm == 'copy.deepcopy' and y.data.size and np.shares_memory(y.data, x.data):
                ctx.violation('protocol:%s:shares-memory' % nm, {'shape': shape}); return
            ctx.ok('protocol', (nm, shape, D, P, vk))
        # builtin max / min of a vector pick the element NumPy's argmax / argmin picks (first one among equals), for P == 1
        if len(shape) == 1 and P == 1 and vk == 'real' and shape[0] > 1:
            try:
                mx, mn = max(x), min(x)
            except Exception:
                ctx.skip('unsupported:protocol:builtin-max'); continue
            if not (_eq(mx.data, data[:, :, int(np.argmax(plain))]) and _eq(mn.data, data[:, :, int(np.argmin(plain))])):
                ctx.violation('protocol:builtin-max-min', {'shape': shape, 'D': D}); return
            ctx.ok('protocol', ('maxmin', shape, D))


def _index(ctx, p, rng):
    D, P, vk, rank = p['D'], p['P'], p['vals'], p['rank']
    shape = tuple(p['shape']) if 'shape' in p else SHAPES[rank]
    exprs = index_exprs(rank, np.random.default_rng(0), p['nsample'])[p['start']:p['stop']]
    for idx in exprs:
        if not _valid(idx, shape):
            continue
        icls = _idx_class(idx)
        data = _vals(rng, (D, P) + shape, vk)
        x = UTPM(gen.relayout(data, gen.LAYOUTS[int(rng.integers(len(gen.LAYOUTS)))]))
        plain = np.zeros(shape)
        # ---- getitem: values, view-ness
        try:
            y = x[idx]
        except Exception as e:
            ctx.violation('getitem:raises:%s' % icls, {'index': _fmt(idx), 'shape': shape, 'error': repr(e)[:160]}); continue
        ok, why = _slicewise(y, data, lambda s: s[idx])
        if not ok:
            ctx.violation('getitem:value:%s' % icls, {'index': _fmt(idx), 'shape': shape, 'D': D, 'P': P, 'why': why}); continue
        ctx.ok('getitem', ('get', shape, _fmt(idx), D, P, vk))
        # basic indexing always yields a view; an all-integer index gives a NumPy scalar there, but a shape-() polynomial here
        want_view = np.asarray(plain[idx]).size > 0
        if np.shares_memory(y.data, x.data) != want_view:
            ctx.violation('getitem:view:%s' % icls, {'index': _fmt(idx), 'shape': shape, 'numpy_view': bool(want_view)}); continue
        ctx.ok('getitem:view', ('view', shape, _fmt(idx)))
        # ---- write through the view: y[...] = w must be visible in the parent exactly like in NumPy
        if y.data[0, 0].size > 0:
            w = _vals(rng, y.data.shape, vk)
            model = data.copy()
            for d in range(D):
                for pp in range(P):
                    model[d, pp][idx] = w[d, pp]
            try:
                y[...] = UTPM(w.copy())
                if not _eq(x.data, model):
                    ctx.violation('writethrough:%s' % icls, {'index': _fmt(idx), 'shape': shape, 'D': D, 'P': P}); continue
                ctx.ok('writethrough', ('wt', shape, _fmt(idx), D, P))
            except Exception as e:
                ctx.violation('writethrough:raises:%s' % icls, {'index': _fmt(idx), 'shape': shape, 'error': repr(e)[:160]}); continue
        # ---- setitem with the four right-hand-side kinds
        tshape = plain[idx].shape
        for rk in ('utpm', 'bcast', 'leading1', 'ndarray', 'scalar', 'alias'):
            x = UTPM(gen.relayout(data, gen.LAYOUTS[int(rng.integers(len(gen.LAYOUTS)))]))
            model = data.copy()
            if rk == 'alias':
                # right-hand side is a view of the container's own zeroth coefficient (NumPy assignment is overlap-safe)
                if len(tshape) == 0 or vk == 'complex':
                    continue
                # ... or of one of its own higher coefficients (x[...] = x.data[1, 0]: "restart from the first derivative")
                dsrc = int(rng.integers(D)) if rng.random() < 0.5 else 0
                view = x.data[dsrc, int(rng.integers(P))][idx]
                if view.shape[0] > 1 and rng.random() < 0.5:
                    view = view[::-1]                     # overlapping, permuted
                w = view.copy(); rhs = view
                for d in range(D):
                    for pp in range(P):
                        model[d, pp][idx] = w if d == 0 else 0
                try:
                    x[idx] = rhs
                except Exception as e:
                    ctx.violation('setitem:alias:raises:%s' % icls, {'index': _fmt(idx), 'shape': shape, 'error': repr(e)[:160]}); continue
                if not _eq(x.data, model):
                    ctx.violation('setitem:alias:value:%s' % icls, {'index': _fmt(idx), 'shape': shape, 'D': D, 'P': P}); continue
                ctx.ok('setitem:alias', ('set', rk, shape, _fmt(idx), D, P, vk))
                # a constant that does not fit the target is rejected (as by NumPy) and leaves the container as it was
                before = x.data.copy()
                try:
                    x[idx] = np.ones(tuple(tshape) + (tshape[-1] + 3,))
                    rejected = False
                except Exception:
                    rejected = True
                if rejected and not _eq(x.data, before):
                    ctx.violation('setitem:rejected-constant-changed-the-container:%s' % icls, {'index': _fmt(idx), 'shape': shape, 'D': D, 'P': P}); continue
                # a polynomial with more entries than the target (NumPy: "could not broadcast input array") must not be accepted by
                # broadcasting the TARGET, which writes several values into one slot
                if int(np.prod(tshape)) == 0:
                    continue          # (nothing can be written into an empty target)
                big = UTPM(_vals(rng, (D, P) + tuple(tshape) + (tshape[-1] + 2,), 'real'))
                try:
                    x[idx] = big
                    accepted = True
                except Exception:
                    accepted = False
                if accepted or not _eq(x.data, before):
                    ctx.violation('setitem:oversized-polynomial-%s:%s' % ('accepted' if accepted else 'rejected-but-container-changed', icls),
                                  {'index': _fmt(idx), 'shape': shape, 'target_shape': list(tshape), 'rhs_shape': list(big.shape), 'D': D, 'P': P}); continue
                ctx.ok('setitem:oversized', ('set', 'oversized', shape, _fmt(idx), D, P))
                continue
            if rk == 'utpm':
                w = _vals(rng, (D, P) + tshape, vk); rhs = UTPM(w.copy())
            elif rk == 'leading1':
                # the right-hand side carries extra leading axes of length 1 (a (1, M) row product stored into a row): NumPy drops them
                if len(tshape) == 0:
                    continue
                ex = (1,) * int(rng.integers(1, 3))
                w0 = _vals(rng, (D, P) + tshape, vk); rhs = UTPM(w0.reshape((D, P) + ex + tshape).copy()); w = w0
            elif rk == 'bcast':
                if len(tshape) == 0:
                    continue
                bs = tshape[1:] if len(tshape) > 1 else (1,)
                w = _vals(rng, (D, P) + bs, vk); rhs = UTPM(w.copy())
            elif rk == 'ndarray':
                w = _vals(rng, tshape, 'real' if vk != 'complex' else 'complex'); rhs = w.copy()
            else:
                w = float(rng.normal()); rhs = w
            for d in range(D):
                for pp in range(P):
                    if rk in ('utpm', 'bcast', 'leading1'):
                        model[d, pp][idx] = w[d, pp]
                    else:
                        model[d, pp][idx] = w if d == 0 else 0
            try:
                x[idx] = rhs
            except Exception as e:
                ctx.violation('setitem:%s:raises:%s' % (rk, icls), {'index': _fmt(idx), 'shape': shape, 'rhs': rk, 'D': D, 'P': P, 'error': repr(e)[:160]}); continue
            if not _eq(x.data, model):
                ctx.violation('setitem:%s:value:%s' % (rk, icls), {'index': _fmt(idx), 'shape': shape, 'rhs': rk, 'D': D, 'P': P}); continue
            ctx.ok('setitem:' + rk, ('set', rk, shape, _fmt(idx), D, P, vk),
                   sample={'op': 'setitem', 'index': _fmt(idx), 'shape': shape, 'rhs': rk, 'D': D, 'P': P} if rng.random() < 0.002 else None)


def _try(ctx, mech, f):
    try:
        return True, f()
    except NotImplementedError as e:
        ctx.skip('unsupported:' + mech); return False, None
    except Exception as e:
        ctx.violation(mech + ':raises:' + type(e).__name__, {'error': repr(e)[:200]}); return False, None


def _shapeops(ctx, p, rng):
    D, P, vk = p['D'], p['P'], p['vals']
    # reshape
    # (the new shape also as a NumPy integer - x.reshape(numpy.prod(x.shape)) - , a list, an array, a tuple of NumPy integers; sizes that
    # coincide with D or P included)
    for shape, news in [((6,), (2, 3)), ((2, 3), (6,)), ((2, 3), 6), ((2, 3), (3, -1)), ((2, 3, 2), (-1, 4)), ((4,), (2, 2, 1)), ((2, 3), (1, 6, 1)), ((1,), ()),
                        ((2, 3), np.int64(6)), ((2, 3), np.prod(np.array([2, 3]))), ((6,), [2, 3]), ((2, 3), np.array([3, 2])), ((4,), (np.int32(2), np.int16(2))),
                        ((D, P), np.int64(D * P)), ((P, D), [D * P])]:
        for noncontig in (False, True):
            if noncontig and len(shape) < 2:
                continue
            data = _vals(rng, (D, P) + shape, vk)
            x = UTPM(data.copy())
            src = data
            if noncontig:
                x = x.T; src = np.transpose(data, (0, 1) + tuple(range(2, data.ndim))[::-1])
                if np.prod(src.shape[2:]) != np.prod(np.zeros(shape).reshape(news).shape):
                    continue
            nt = tuple(int(v) for v in np.atleast_1d(np.asarray(news)).tolist()) if not isinstance(news, tuple) else news
            for ent, f in (('method', lambda: x.reshape(news)), ('global', lambda: algopy.reshape(x, news))):
                ok, y = _try(ctx, 'reshape', f)
                if not ok:
                    continue
                good, why = _slicewise(y, src, lambda s: np.reshape(s, news))
                if not good:
                    ctx.violation('reshape:value:%s' % ('noncontiguous' if noncontig else 'contiguous'), {'shape': shape, 'newshape': str(news), 'why': why}); continue
                ctx.ok('reshape', ('reshape', shape, str(news), noncontig, ent, D, P, vk))
    # transpose
    for shape in [(), (3,), (2, 3), (2, 3, 4), (1, 2, 1, 3)]:
        data = _vals(rng, (D, P) + shape, vk)
        x = UTPM(data.copy())
        for ent, f in (('T', lambda: x.T), ('method', lambda: x.transpose()), ('global', lambda: algopy.transpose(x))):
            ok, y = _try(ctx, 'transpose', f)
            if not ok:
                continue
            good, why = _slicewise(y, data, np.transpose)
            if not good:
                ctx.violation('transpose:value:rank%d' % len(shape), {'shape': shape, 'entry': ent, 'why': why}); continue
            ctx.ok('transpose', ('transpose', shape, ent, D, P, vk))
            if data[0, 0].size:
                if not np.shares_memory(y.data, x.data):
                    ctx.violation('transpose:view:rank%d' % len(shape), {'shape': shape, 'entry': ent}); continue
                # write through the transposed view
                w = _vals(rng, y.data.shape, vk)
                model = np.transpose(w, (0, 1) + tuple(range(2, w.ndim))[::-1])
                y[...] = UTPM(w.copy())
                if not _eq(x.data, model):
                    ctx.violation('transpose:writethrough:rank%d' % len(shape), {'shape': shape, 'entry': ent}); continue
                x.data[...] = data
                ctx.ok('transpose:view', ('tview', shape, ent))
    # tile
    for shape, reps in [((3,), 2), ((3,), (2,)), ((3,), (2, 2)), ((2, 3), 2), ((2, 3), (2, 1)), ((2, 3), (1, 2, 2)), ((), 3), ((2, 1), (3, 2))]:
        data = _vals(rng, (D, P) + shape, vk)
        x = UTPM(data.copy())
        for ent, f in (('global', lambda: algopy.tile(x, reps)), ('class', lambda: UTPM.tile(x, reps))):
            ok, y = _try(ctx, 'tile', f)
            if not ok:
                continue
            good, why = _slicewise(y, data, lambda s: np.tile(s, reps))
            if not good:
                ctx.violation('tile:value', {'shape': shape, 'reps': str(reps), 'why': why}); continue
            ctx.ok('tile', ('tile', shape, str(reps), D, P, vk))
    # diag / triu / tril
    for shape in [(3,), (1,), (3, 3), (4, 2), (2, 4), (1, 3), (3, 1)]:
        data = _vals(rng, (D, P) + shape, vk)
        x = UTPM(data.copy())
        for k in (0, 1, -1):
            for ent, f in (('global', (lambda k: lambda: algopy.diag(x, k) if k else algopy.diag(x))(k)), ('class', (lambda k: lambda: UTPM.diag(x, k))(k)),
                           ('global-keyword', (lambda k: lambda: algopy.diag(x, k=k))(k)), ('class-keyword', (lambda k: lambda: UTPM.diag(x, k=k))(k))):
                ok, y = _try(ctx, 'diag', f)
                if not ok:
                    continue
                good, why = _slicewise(y, data, lambda s: np.diag(s, k))
                cls = ('vector' if len(shape) == 1 else ('square' if shape[0] == shape[1] else ('tall' if shape[0] > shape[1] else ('row' if shape[0] == 1 else 'wide')))) + (':k' if k else '')
                if not good:
                    ctx.violation('diag:value:%s' % cls, {'shape': shape, 'k': k, 'why': why}); continue
                ctx.ok('diag', ('diag', shape, k, ent, D, P, vk))
            if len(shape) == 2:
                for nm in ('triu', 'tril'):
                  for ent, f in (('positional', (lambda nm, k: lambda: getattr(algopy, nm)(x, k))(nm, k)), ('keyword', (lambda nm, k: lambda: getattr(algopy, nm)(x, k=k))(nm, k)),
                                 ('class-keyword', (lambda nm, k: lambda: getattr(UTPM, nm)(x, k=k))(nm, k))):
                    ok, y = _try(ctx, nm, f)
                    if not ok:
                        continue
                    good, why = _slicewise(y, data, lambda s: getattr(np, nm)(s, k))
                    if not good:
                        ctx.violation('%s:value' % nm, {'shape': shape, 'k': k, 'argument-form': ent, 'why': why}); continue
                    ctx.ok(nm, (nm, shape, k, ent, D, P, vk))
    # symvec / vecsym
    def symvec_ref(S, uplo):
        iu = np.triu_indices(S.shape[0])
        return {'F': 0.5 * (S + S.T), 'U': S, 'L': S.T}[uplo][iu]
    for n in (1, 2, 3, 4):
      for symbase in (False, True):
        data = _vals(rng, (D, P, n, n), 'real')
        if symbase:
            data[0] = 0.5 * (data[0] + np.swapaxes(data[0], -1, -2))      # exactly symmetric base point, non-symmetric higher coefficients
        x = UTPM(data.copy())
        for uplo in 'FLU':
            ok, y = _try(ctx, 'symvec', lambda: algopy.symvec(x, uplo))
            if ok:
                good, why = _slicewise(y, data, lambda s: symvec_ref(s, uplo))
                if not good:
                    ctx.violation('symvec:value:%s' % uplo, {'n': n, 'why': why})
                else:
                    ctx.ok('symvec', ('symvec', n, uplo, D, P))
        v = _vals(rng, (D, P, n * (n + 1) // 2), 'real')
        ok, y = _try(ctx, 'vecsym', lambda: algopy.vecsym(UTPM(v.copy())))
        if ok:
            good, why = _slicewise(y, v, algopy.utils.vecsym)
            if not good:
                ctx.violation('vecsym:value', {'n': n, 'why': why})
            else:
                ctx.ok('vecsym', ('vecsym', n, D, P))


def _reductions(ctx, p, rng):
    D, P, vk = p['D'], p['P'], p['vals']
    fin = 'real' if vk == 'nonfinite' else vk
    for shape in [(4,), (2, 3), (2, 3, 2), (1,), ()]:
        data = _vals(rng, (D, P) + shape, fin)
        x = UTPM(data.copy())
        tuples = [(0, len(shape) - 1), (-1, 0), (1,), tuple(range(len(shape)))] if len(shape) >= 2 else ([(0,), (-1,)] if len(shape) == 1 else [])
        for axis in [None] + list(range(-len(shape), len(shape))) + tuples:          # (several axes at once: numpy.sum(a, axis=(0, 2)))
            for ent, f in (('method', (lambda ax: lambda: x.sum(axis=ax) if ax is not None else x.sum())(axis)),
                           ('global', (lambda ax: lambda: algopy.sum(x, axis=ax))(axis))):
                ok, y = _try(ctx, 'sum', f)
                if not ok:
                    continue
                bad = None
                if not isinstance(y, UTPM):
                    bad = 'type'
                else:
                    for d in range(D):
                        for pp in range(P):
                            ref = np.sum(data[d, pp], axis=axis)
                            got = y.data[d, pp]
                            if np.shape(got) != np.shape(ref) or not np.all(np.abs(got - ref) <= 1e-13 * (np.sum(np.abs(data[d, pp]), axis=axis) + 1e-300)):
                                bad = 'slice d=%d p=%d shape %s vs %s' % (d, pp, np.shape(got), np.shape(ref))
                if bad:
                    ctx.violation('sum:value:%s' % ('axis-none' if axis is None else ('axis-tuple' if isinstance(axis, tuple) else ('axis-neg' if axis < 0 else 'axis-pos'))), {'shape': shape, 'axis': axis, 'why': bad}); continue
                ctx.ok('sum', ('sum', shape, axis, ent, D, P, vk))
    for shape in [(3, 3), (2, 4), (1, 1), (4, 2), (3, 1), (1, 3), (5, 2)]:
        data = _vals(rng, (D, P) + shape, fin)
        ok, y = _try(ctx, 'trace', lambda: algopy.trace(UTPM(data.copy())))
        if ok:
            good = isinstance(y, UTPM) and y.data.shape == (D, P) and np.all(np.abs(y.data - np.trace(data, axis1=2, axis2=3)) <= 1e-13 * (np.sum(np.abs(data), axis=(2, 3)) + 1e-300))
            if not good:
                ctx.violation('trace:value', {'shape': shape})
            else:
                ctx.ok('trace', ('trace', shape, D, P, vk))
    for shape in [(), (3,), (2, 2)]:
        data = _vals(rng, (D, P) + shape, vk)
        x = UTPM(data.copy())
        for nm, f, g in (('neg', lambda: -x, np.negative), ('conjugate', lambda: x.conjugate(), np.conjugate), ('conjugate', lambda: x.conj(), np.conjugate),
                         ('conjugate', lambda: algopy.conjugate(x), np.conjugate), ('real', lambda: algopy.real(x), np.real), ('imag', lambda: algopy.imag(x), np.imag),
                         ('neg', lambda: algopy.negative(x), np.negative)):
            ok, y = _try(ctx, nm, f)
            if not ok:
                continue
            good, why = _slicewise(y, data, g)
            if not good:
                ctx.violation('%s:value' % nm, {'shape': shape, 'vals': vk, 'why': why}); continue
            ctx.ok(nm, (nm, shape, D, P, vk))
    for shape in [(4,), (2, 3), (2, 3, 2)]:
        data = _vals(rng, (D, P) + shape, fin)
        x = UTPM(data.copy())
        for axis in range(-len(shape), len(shape)):
            for n in (None, shape[axis], shape[axis] + 2, 1, max(1, shape[axis] - 1), 2 * shape[axis]):
                for nm, af, nf in (('fft', algopy.fft.fft, np.fft.fft), ('ifft', algopy.fft.ifft, np.fft.ifft)):
                    try:
                        y = af(x, n=n, axis=axis)
                    except Exception as e:
                        ctx.violation('%s:raises' % nm, {'shape': shape, 'axis': axis, 'n': n, 'error': repr(e)[:160]}); continue
                    bad = None
                    for d in range(D):
                        for pp in range(P):
                            ref = nf(data[d, pp], n=n, axis=axis)
                            if y.data[d, pp].shape != ref.shape or not np.all(np.abs(y.data[d, pp] - ref) <= 1e-13 * (np.max(np.abs(ref)) + 1e-300) * ref.shape[axis]):
                                bad = 'slice d=%d p=%d' % (d, pp)
                    if bad:
                        ctx.violation('%s:value:%s' % (nm, 'last-axis' if axis in (-1, len(shape) - 1) else 'other-axis'), {'shape': shape, 'axis': axis, 'n': n, 'why': bad}); continue
                    ctx.ok(nm, (nm, shape, axis, n, D, P, vk))


def _construct(ctx, p, rng):
    D, P, vk = p['D'], p['P'], p['vals']
    for shape in [(), (3,), (2, 2)]:
        data = _vals(rng, (D, P) + shape, vk)
        if vk == 'nonfinite' and data.size:
            data.reshape(-1)[0] = np.inf          # the dtype carrier's first element is non-finite
        x = UTPM(data.copy())
        for tshape in [2, (3,), (2, 3), (), np.int64(4), np.prod(np.array([2, 2])), (np.int32(2), 3), [2, 3], np.array([3, 2]), [D], np.array([P, D])]:          # every spelling of a shape NumPy accepts
            ts = (int(tshape),) if isinstance(tshape, (int, np.integer)) else tuple(int(v) for v in tshape)
            for nm, f, ref0 in (('zeros', lambda: algopy.zeros(tshape, dtype=x), np.zeros), ('ones', lambda: algopy.ones(tshape, dtype=x), np.ones)):
                ok, y = _try(ctx, nm, f)
                if not ok:
                    continue
                want = np.zeros((D, P) + ts, dtype=data.dtype); want[0] = ref0(ts)
                if not (isinstance(y, UTPM) and _eq(y.data, want)):
                    ctx.violation('%s:value:%s' % (nm, 'nonfinite-carrier' if vk == 'nonfinite' else 'finite'), {'shape': str(tshape), 'carrier': shape, 'got_shape': getattr(getattr(y, 'data', None), 'shape', None)}); continue
                ctx.ok(nm, (nm, str(tshape), shape, D, P, vk))
                # the caller owns the result: after changing it in place, the next request must not see the change
                if isinstance(y, UTPM) and y.data.size:
                    y.data[...] = 7.5
                    ok2, y2 = _try(ctx, nm, f)
                    if ok2 and not (isinstance(y2, UTPM) and _eq(y2.data, want)):
                        ctx.violation('%s:earlier-result-modified-by-caller-leaks' % nm, {'shape': str(tshape), 'carrier': shape}); continue
        # an explicit dtype overrides the prototype: the result has the prototype's shape and the dtype carrier's element type, D and P
        cdat = _vals(rng, (D + 1, P + 1, 2), 'complex')
        carrier = UTPM(cdat.copy())
        for nm, one in (('zeros_like', 0), ('ones_like', 1)):
            ok, y = _try(ctx, nm, lambda: getattr(algopy, nm)(x, dtype=carrier))
            if ok:
                want = np.zeros((D + 1, P + 1) + shape, dtype=complex); want[0] = one
                if not (isinstance(y, UTPM) and y.data.dtype == want.dtype and _eq(y.data, want)):
                    ctx.violation('%s:explicit-dtype-ignored' % nm, {'prototype': shape, 'got_shape': getattr(getattr(y, 'data', None), 'shape', None), 'got_dtype': str(getattr(getattr(y, 'data', None), 'dtype', None))}); continue
                ctx.ok(nm, (nm, 'explicit-dtype', shape, D, P, vk))
        for nm, f, one in (('zeros_like', lambda: algopy.zeros_like(x), 0), ('ones_like', lambda: algopy.ones_like(x), 1), ('zeros_like', lambda: x.zeros_like(), 0), ('ones_like', lambda: x.ones_like(), 1)):
            ok, y = _try(ctx, nm, f)
            if not ok:
                continue
            want = np.zeros_like(data); want[0] = one
            if not (isinstance(y, UTPM) and _eq(y.data, want)):
                ctx.violation('%s:value:%s' % (nm, 'nonfinite-carrier' if vk == 'nonfinite' else 'finite'), {'carrier': shape}); continue
            ctx.ok(nm, (nm, shape, D, P, vk))
