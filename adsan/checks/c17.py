"""C17 - conversions between representations are lossless and mutually inverse.
Monitor: round-trip postconditions with bit identity; independent permutation model for pivot vectors
(all N! pivot vectors up to the bound, each realised by a matrix that makes scipy.linalg.lu_factor return it)."""
import itertools, math
import numpy as np
import scipy.linalg
import algopy
from algopy import UTPM
from algopy import utils as U
from ..core import case_seed
from .. import gen, lin

PID = 'C17'
RULE = ('round trips over the shape alphabet x D x P x value kinds {random, integers, non-finite}; all pivot vectors '
        'piv[i] in [i,N-1] for N<=Nmax (N! each), each realised by A=P L U with |L_ij|<1 and verified on the actual output of '
        'scipy.linalg.lu_factor; the polynomial-level conversion UTPM.piv2mat / UTPM.piv2det of the pivots of UTPM.lu2 (W L U = A modulo t^D, W and sign constant); a class = (conversion, shape/UPLO/N, D, P, value kind); non-trivial = more than one '
        'element or a non-identity permutation')
ASSUMPTIONS = ['numpy.block / numpy.triu_indices / own cycle count are the independent models']
NMAX = {'quick': 6, 'thorough': 9}
SHAPES = [(), (1,), (3,), (2, 3), (3, 1), (2, 1, 2)]
RANK4 = [(2, 3, 3, 2), (2, 3, 4, 5), (2, 1, 3, 2, 2)]
REQUIRED = ['base_and_dirs', 'utpm2dirs', 'symvec_vecsym', 'vecsym_symvec', 'symvec_triangular_storage', 'as_utpm', 'ndarray2utpm', 'shift',
            'combine_blocks', 'coeff_op', 'piv2mat', 'piv2det', 'piv_plu', 'piv_utpm']
EXHAUSTIVE_NOTE = 'pivot vectors enumerated completely up to Nmax'


def cases(tier, seed):
    out = []
    Ds = [1, 2, 4] if tier == 'quick' else [1, 2, 3, 4, 5, 7, 9]
    Ps = [1, 2] if tier == 'quick' else [1, 2, 3, 5]
    kinds = ['random', 'integers', 'nonfinite', 'complex', 'signedzero', 'bottom']
    for D in Ds:
        for P in Ps:
            for kind in kinds:
                for shp in SHAPES:
                    out.append({'kind': 'conv', 'seed': case_seed('C17', seed, D, P, kind, shp),
                                'params': {'D': D, 'P': P, 'vals': kind, 'shape': list(shp)}})
                if kind == 'complex':
                    # complex values with an infinite or a signed-zero component: moving data must not compute with it
                    # ((inf+0j) * 1.0 is inf+nanj, (2-0j) * 1.0 is 2+0j)
                    for shp in SHAPES:
                        out.append({'kind': 'conv', 'seed': case_seed('C17', seed, D, P, 'complexspecial', shp),
                                    'params': {'D': D, 'P': P, 'vals': 'complexspecial', 'shape': list(shp)}})
                if kind in ('random', 'integers'):
                    for shp in RANK4:                       # coefficient shapes of rank 4 and 5
                        out.append({'kind': 'conv', 'seed': case_seed('C17', seed, D, P, kind, shp),
                                    'params': {'D': D, 'P': P, 'vals': kind, 'shape': list(shp)}})
                for n in ([1, 2, 3, 4] if tier == 'quick' else [1, 2, 3, 4, 5, 7]):
                    for uplo in 'FLU':
                        out.append({'kind': 'sym', 'seed': case_seed('C17', seed, D, P, kind, n, uplo),
                                    'params': {'D': D, 'P': P, 'vals': kind, 'n': n, 'UPLO': uplo}})
    for D in Ds:
        for P in Ps:
            for N in (1, 2, 3, 4, 5):
                out.append({'kind': 'piv_utpm', 'seed': case_seed('C17', seed, 'piv_utpm', D, P, N), 'params': {'D': D, 'P': P, 'N': N}})
    for N in range(1, NMAX[tier] + 1):
        allp = list(itertools.product(*[range(i, N) for i in range(N)]))
        chunk = 720
        for c in range(0, len(allp), chunk):
            out.append({'kind': 'piv', 'seed': case_seed('C17', seed, N, c), 'params': {'N': N, 'start': c, 'stop': min(len(allp), c + chunk)}})
    return out


def _vals(rng, shape, kind):
    if kind == 'integers':
        return rng.integers(-9, 10, size=shape).astype(float)
    v = rng.normal(size=shape)
    if kind == 'nonfinite' and v.size:
        f = v.reshape(-1)
        f[rng.integers(f.size)] = np.inf
        f[rng.integers(f.size)] = -0.0
        if f.size > 2:
            f[rng.integers(f.size)] = np.nan
    if kind == 'signedzero' and v.size:
        f = v.reshape(-1)
        m = rng.random(size=f.size)
        f[m < 0.25] = -0.0; f[(m >= 0.25) & (m < 0.4)] = 0.0          # zeros of both signs: conversions move bits, they do not compute
    if kind in ('complex', 'complexspecial'):
        v = v + 1j * rng.normal(size=shape)
    if kind == 'complexspecial' and v.size:
        f = v.reshape(-1)
        spec = [complex(np.inf, 0.0), complex(2.0, -0.0), complex(-0.0, -3.0), complex(0.0, np.inf), complex(-np.inf, -0.0), complex(-0.0, 0.0)]
        for k_ in range(min(f.size, 4)):
            f[rng.integers(f.size)] = spec[int(rng.integers(len(spec)))]
    if kind == 'bottom':
        # normal numbers just above the smallest one (tiny ... 2 tiny, odd last bits): a + a is exact there, a / 2 is not
        tiny = np.finfo(float).tiny
        v = np.sign(v) * tiny * (1.0 + np.abs(rng.integers(1, 2 ** 52, size=shape) | 1) / 2.0 ** 52)
    return v


def _same(a, b):
    a = np.asarray(a); b = np.asarray(b)
    return a.shape == b.shape and np.array_equal(a, b, equal_nan=True) and \
        np.array_equal(np.signbit(a.real), np.signbit(b.real)) and np.array_equal(np.signbit(a.imag), np.signbit(b.imag))


def run_case(ctx, case):
    k = case['kind']
    rng = gen.rng_of(case)
    if k == 'conv':
        return _conv(ctx, case['params'], rng)
    if k == 'sym':
        return _sym(ctx, case['params'], rng)
    if k == 'piv_utpm':
        return _piv_utpm(ctx, case['params'], rng)
    return _piv(ctx, case['params'], rng)


def _piv_utpm(ctx, p, rng):
    """polynomial level: the pivot polynomial returned by UTPM.lu2 converts (UTPM.piv2mat, UTPM.piv2det) to a constant
    permutation W and a constant sign with W L U = A modulo t^D and det(A)_0 = sign * prod(diag(U_0)), direction by direction"""
    D, P, N = p['D'], p['P'], p['N']
    a = 0.5 * rng.normal(size=(D, P, N, N))
    for pp in range(P):
        a[0, pp] = gen.well_conditioned(rng, N, N)[rng.permutation(N)]          # rows shuffled: pivoting differs per direction
    try:
        PIV, L, Uu = UTPM.lu2(UTPM(a.copy()))
        W = UTPM.piv2mat(PIV)
        sg = UTPM.piv2det(PIV)
    except Exception as e:
        ctx.violation('piv_utpm:raises', {'D': D, 'P': P, 'N': N, 'error': repr(e)[:200]}); return
    if W.data.shape != (D, P, N, N) or sg.data.shape != (D, P):
        ctx.violation('piv_utpm:shape', {'W': W.data.shape, 'sign': sg.data.shape}); return
    for pp in range(P):
        piv = np.asarray(PIV.data[0, pp]).astype(int)
        rows = _perm_from_piv(piv)
        Pm = np.zeros((N, N)); Pm[rows, np.arange(N)] = 1.0
        if not np.array_equal(W.data[0, pp], Pm) or np.any(W.data[1:, pp] != 0):
            ctx.violation('piv_utpm:piv2mat:%s' % ('zeroth' if not np.array_equal(W.data[0, pp], Pm) else 'higher-coefficients-nonzero'),
                          {'D': D, 'P': P, 'N': N, 'direction': pp, 'piv': piv.tolist()}); return
        if sg.data[0, pp] != _parity(rows) or np.any(sg.data[1:, pp] != 0):
            ctx.violation('piv_utpm:piv2det', {'D': D, 'P': P, 'N': N, 'direction': pp, 'piv': piv.tolist(), 'got': sg.data[:, pp].tolist()}); return
        d0 = sg.data[0, pp] * np.prod(np.diag(Uu.data[0, pp]))
        if not abs(d0 - np.linalg.det(a[0, pp])) <= 1e-9 * max(1.0, abs(d0)):
            ctx.violation('piv_utpm:det', {'D': D, 'P': P, 'N': N, 'direction': pp, 'got': float(d0), 'want': float(np.linalg.det(a[0, pp]))}); return
    # the pivots of UTPM.lu_factor (the scipy.linalg.lu_factor convention, returned as a polynomial) convert the same way
    try:
        LUf, PIVf = UTPM.lu_factor(UTPM(a.copy()))
        Wf = UTPM.piv2mat(PIVf); sgf = UTPM.piv2det(PIVf)
    except Exception as e:
        ctx.violation('piv_utpm:lu_factor-pivots:raises', {'D': D, 'P': P, 'N': N, 'error': repr(e)[:200]}); return
    for pp in range(P):
        import scipy.linalg as _sl
        piv = _sl.lu_factor(a[0, pp])[1]
        rows = _perm_from_piv(piv)
        Pm = np.zeros((N, N)); Pm[rows, np.arange(N)] = 1.0
        if not np.array_equal(Wf.data[0, pp], Pm) or sgf.data[0, pp] != _parity(rows):
            ctx.violation('piv_utpm:lu_factor-pivots:value', {'D': D, 'P': P, 'N': N, 'direction': pp}); return
    LU, M1 = lin.cdot(L.data, Uu.data)
    WLU, M2 = lin.cdot(W.data, LU)
    e = lin.res_norm(WLU - a, M2 + np.abs(a))
    if not e <= 1e-9:
        ctx.violation('piv_utpm:WLU=A', {'D': D, 'P': P, 'N': N, 'residual': e}); return
    ctx.ok('piv_utpm', ('piv_utpm', D, P, N), noise=e)


def _conv(ctx, p, rng):
    D, P, kind, shp = p['D'], p['P'], p['vals'], tuple(p['shape'])
    cls = (D, P, kind, shp)
    data = _vals(rng, (D, P) + shp, kind)
    # --- base point + directions <-> polynomial (all directions share the base point by construction of the format)
    if True:          # complex coefficients are values like any other (the helpers used to drop the imaginary part)
        d2 = data.copy()
        for pp in range(P):
            d2[0, pp] = d2[0, 0]
        u = UTPM(d2.copy())
        x, V = U.utpm2base_and_dirs(u)
        ok = _same(x, d2[0, 0]) and V.shape == shp + (P, D - 1)
        if ok:
            for d in range(1, D):
                for pp in range(P):
                    ok = ok and _same(V[..., pp, d - 1], d2[d, pp])
        u2 = U.base_and_dirs2utpm(x, V)
        ok = ok and isinstance(u2, UTPM) and _same(u2.data, d2) and _same(u.data, d2)
        if not ok:
            ctx.violation('base_and_dirs:roundtrip', {'D': D, 'P': P, 'shape': shp, 'vals': kind}); return
        ctx.ok('base_and_dirs', ('bd',) + cls, exact=True)
        if kind == 'random' and D > 1:
            # base point given as integers (ndarray of ints / nested list): the directions must survive unchanged
            xi = rng.integers(-4, 5, size=shp)
            for xarg, tag in ((xi, 'int-ndarray'), (xi.tolist(), 'int-list'), (xi.astype(np.float32), 'float32')):
                u3 = U.base_and_dirs2utpm(xarg, V)
                x3, V3 = U.utpm2base_and_dirs(u3)
                if not (_same(V3, V) and np.array_equal(x3, np.asarray(xi, dtype=float))):
                    ctx.violation('base_and_dirs:%s-base-point' % tag, {'D': D, 'P': P, 'shape': shp}); return
                ctx.ok('base_and_dirs', ('bd', tag) + cls, exact=True)
    u = UTPM(data.copy())
    Vb = U.utpm2dirs(u)
    ok = Vb.shape == shp + (P, D)
    if ok:
        for d in range(D):
            for pp in range(P):
                ok = ok and _same(Vb[..., pp, d], data[d, pp])
    if not ok:
        ctx.violation('utpm2dirs:layout', {'D': D, 'P': P, 'shape': shp}); return
    ctx.ok('utpm2dirs', ('u2d',) + cls, exact=True)
    # --- shift by s then -s on the retained part
    for s in range(-(2 * D + 1), 2 * D + 2):          # also shifts by D and more: nothing is retained, everything is zero; s = 0: the identity
        u = UTPM(data.copy())
        ref = np.zeros_like(data)
        if s == 0:
            ref[...] = data
        elif 0 < s < D:
            ref[s:] = data[:-s]
        elif -D < s < 0:
            ref[:s] = data[-s:]
        own = UTPM(data.copy())
        try:
            # the shift count in the spellings an index computation produces (NumPy integers, unsigned ones for s >= 0)
            sp = [s, np.int64(s), np.int8(s) if abs(s) < 100 else s, np.uint8(s) if 0 <= s < 200 else np.int32(s)][int(rng.integers(4))]
            a = u.shift(sp)
            # the same shift into a buffer of the caller that holds other data, and into the polynomial itself
            buf = UTPM(np.full(data.shape, 7.5, dtype=data.dtype)); u.shift(s, out=buf)
            own.shift(s, out=own)
            # ... and into ANOTHER object that shares the polynomial's memory: a second wrapper around the same array, a column of a
            # container shifted in place through two equal views of it
            twin = UTPM(data.copy()); twin.shift(s, out=UTPM(twin.data))
            cont = UTPM(np.stack([data, data * 0 + 7.5], axis=2)); cont[0].shift(s, out=cont[0])
            if not (_same(twin.data, ref) and _same(cont.data[:, :, 0], ref) and _same(cont.data[:, :, 1], data * 0 + 7.5)):
                ctx.violation('shift:out-shares-memory-with-the-polynomial', {'D': D, 'P': P, 'shape': shp, 's': s,
                                                                               'form': 'second wrapper' if not _same(twin.data, ref) else 'views of a container'}); return
        except Exception as e:
            ctx.violation('shift:raises', {'D': D, 'P': P, 'shape': shp, 's': s, 'spelling': type(sp).__name__, 'error': repr(e)[:160],
                                           'polynomial_passed_as_out_left_intact': bool(_same(own.data, data))}); return
        if not (_same(buf.data, ref) and _same(own.data, ref)):
            ctx.violation('shift:out-buffer', {'D': D, 'P': P, 'shape': shp, 's': s, 'into': 'other buffer' if not _same(buf.data, ref) else 'itself'}); return
        b = a.shift(-s)
        keep = (slice(0, D - s) if s > 0 else slice(-s, D)) if abs(s) < D else slice(0, 0)
        if not (_same(a.data, ref) and _same(b.data[keep], data[keep]) and _same(u.data, data)):
            ctx.violation('shift:%s' % ('positive' if s > 0 else 'negative'), {'D': D, 'P': P, 'shape': shp, 's': s}); return
        ctx.ok('shift', ('shift',) + cls + (s,), exact=True)
    # --- nested containers of polynomials <-> one polynomial indexed element-wise
    if True:
        for cshape in [(2,), (2, 2), (1, 3)]:
            elems = np.empty(cshape, dtype=object)
            raw = {}
            for idx in np.ndindex(*cshape):
                raw[idx] = _vals(rng, (D, P) + shp, kind)
                if kind == 'random' and idx == tuple(c - 1 for c in cshape) and cshape != (2,):
                    raw[idx] = _vals(rng, (D, P) + shp, 'complex')          # elements of different number types: the first real, the last complex
                elems[idx] = UTPM(raw[idx].copy())
            # the container itself in other memory layouts (logical indexing must win over memory order)
            elemsF = np.asfortranarray(elems)
            elemsT = np.empty(cshape[::-1], dtype=object)
            for idx in np.ndindex(*cshape):
                elemsT[idx[::-1]] = elems[idx]
            elemsT = elemsT.T
            for fn_name, fn, arg in (('as_utpm', UTPM.as_utpm, elems), ('as_utpm', UTPM.as_utpm, elems.tolist()),
                                     ('as_utpm', UTPM.as_utpm, elemsF), ('as_utpm', UTPM.as_utpm, elemsT),
                                     ('ndarray2utpm', U.ndarray2utpm, elems)):
                try:
                    y = fn(arg)
                except Exception as e:
                    ctx.violation('%s:raises' % fn_name, {'D': D, 'P': P, 'shape': shp, 'container': cshape, 'error': repr(e)[:200]}); return
                ok = isinstance(y, UTPM) and y.data.shape == (D, P) + cshape + shp
                if ok:
                    for idx in np.ndindex(*cshape):
                        ok = ok and _same(y.data[(slice(None), slice(None)) + idx], raw[idx]) and _same(y[idx].data, raw[idx])
                        ok = ok and _same(elems[idx].data, raw[idx])
                if not ok:
                    ctx.violation('%s:elementwise' % fn_name, {'D': D, 'P': P, 'shape': shp, 'container': cshape, 'vals': kind,
                                                               'got_shape': getattr(getattr(y, 'data', None), 'shape', None)}); return
                ctx.ok(fn_name, (fn_name,) + cls + (cshape,), exact=True)
    # --- ndarray2utpm: elements of different number types (the first one real, a later one complex): nothing is dropped
    if shp == () and kind == 'random':
        ra, rb = _vals(rng, (D, P), 'random'), _vals(rng, (D, P), 'complex')
        try:
            y = U.ndarray2utpm([UTPM(ra.copy()), UTPM(rb.copy()), UTPM(ra.copy() * 2)])
        except Exception as e:
            ctx.violation('ndarray2utpm:mixed-dtypes:raises', {'D': D, 'P': P, 'error': repr(e)[:200]}); return
        if not (isinstance(y, UTPM) and _same(y.data[:, :, 0], ra) and _same(y.data[:, :, 1], rb) and _same(y.data[:, :, 2], ra * 2)):
            ctx.violation('ndarray2utpm:mixed-dtypes:value', {'D': D, 'P': P, 'result_dtype': str(getattr(getattr(y, 'data', None), 'dtype', None))}); return
        ctx.ok('ndarray2utpm', ('ndarray2utpm', 'mixed-dtypes') + cls, exact=True)
    # --- ndarray2utpm: a container that also holds plain numbers (constants of the program) behind the first polynomial:
    # a number c is the constant polynomial [c, 0, ..., 0] in every direction
    if shp == () and kind in ('random', 'integers'):
        n_el = 4
        raw2 = [_vals(rng, (D, P), kind) for _ in range(n_el)]
        consts = [{1: 2.5, 3: np.float64(-0.75)}, {0: 1.5, 2: np.float64(-0.75)}][int(rng.integers(2))] if kind == 'random' else [{2: 7}, {0: 7}][int(rng.integers(2))]
        # (a constant may also come first: [1.0, x] as well as [x, 1.0])
        cont = np.empty(n_el, dtype=object)
        for i in range(n_el):
            cont[i] = consts[i] if i in consts else UTPM(raw2[i].copy())
        try:
            y = U.ndarray2utpm(cont)
        except Exception as e:
            ctx.violation('ndarray2utpm:numbers-in-container:raises', {'D': D, 'P': P, 'error': repr(e)[:200]}); return
        ok = isinstance(y, UTPM) and y.data.shape == (D, P, n_el)
        for i in range(n_el):
            if not ok:
                break
            if i in consts:
                want = np.zeros((D, P)); want[0] = consts[i]
            else:
                want = raw2[i]
            ok = _same(y.data[:, :, i], want)
        if not ok:
            ctx.violation('ndarray2utpm:numbers-in-container:value', {'D': D, 'P': P, 'vals': kind}); return
        ctx.ok('ndarray2utpm', ('ndarray2utpm', 'numbers-in-container') + cls, exact=True)
    # --- combine_blocks vs numpy.block per slice
    if len(shp) == 2:
        r1, c1 = shp
        r2, c2 = int(rng.integers(1, 3)), int(rng.integers(1, 3))
        B = [[_vals(rng, (D, P, r1, c1), kind), _vals(rng, (D, P, r1, c2), kind)],
             [_vals(rng, (D, P, r2, c1), kind), _vals(rng, (D, P, r2, c2), kind)]]
        if kind == 'integers':
            # blocks of different dtype (an integer identity-like block, a single precision block next to double precision ones):
            # the combined polynomial has the promoted dtype, as numpy.block has
            B[0][0] = B[0][0].astype(np.int64)
            B[1][1] = B[1][1].astype(np.float32)
            B[0][1] = B[0][1] + 0.5; B[1][0] = B[1][0] + 0.25
        blocks = np.empty((2, 2), dtype=object)      # (a nested list is rejected by numpy.array inside the helper)
        for r_ in range(2):
            for c_ in range(2):
                blocks[r_, c_] = UTPM(B[r_][c_].copy())
        if P > 1 and kind in ('random', 'complex') and rng.random() < 0.6:
            # a block that is the same in all directions given with one direction (a constant block next to seeded ones)
            r_, c_ = int(rng.integers(2)), int(rng.integers(2))
            B[r_][c_][:, 1:] = B[r_][c_][:, :1]
            blocks[r_, c_] = UTPM(B[r_][c_][:, :1].copy())
        for form, arg in (('object array', blocks), ('list of lists (the form the docstring shows)', [[blocks[0, 0], blocks[0, 1]], [blocks[1, 0], blocks[1, 1]]])):
            try:
                y = UTPM.combine_blocks(arg)
            except Exception as e:
                ctx.violation('combine_blocks:raises', {'D': D, 'P': P, 'shape': shp, 'container': form, 'error': repr(e)[:160]}); return
            ok = y.data.shape == (D, P, r1 + r2, c1 + c2)
            if ok:
                for d in range(D):
                    for pp in range(P):
                        ok = ok and _same(y.data[d, pp], np.block([[b[d, pp] for b in row] for row in B]))
            if not ok:
                ctx.violation('combine_blocks:layout', {'D': D, 'P': P, 'shape': shp, 'container': form}); return
        ctx.ok('combine_blocks', ('cb',) + cls, exact=True)
    # --- FtoJT / JTtoF (directional derivatives <-> transposed Jacobian): the coefficients that both forms hold come back bit for bit
    if D >= 2:
        try:
            jt = UTPM(data.copy()).FtoJT()
            back = jt.JTtoF()
        except Exception as e:
            ctx.violation('FtoJT_JTtoF:raises', {'D': D, 'P': P, 'shape': shp, 'error': repr(e)[:160]}); return
        if not (jt.data.shape == (D - 1, 1, P) + shp and _same(jt.data.reshape((D - 1, P) + shp), data[1:]) and back.data.shape == (D, P) + shp
                and _same(back.data[:D - 1], data[1:])):
            ctx.violation('FtoJT_JTtoF:value', {'D': D, 'P': P, 'shape': shp, 'vals': kind, 'dtype_in': str(data.dtype), 'dtype_back': str(back.data.dtype)}); return
        ctx.ok('FtoJT_JTtoF', ('jt',) + cls, exact=True)
    # --- coeff_op: the selected coefficients, reshaped like numpy reshapes (row-major), whatever the memory layout of the
    # stored coefficients and whichever part is selected
    if len(shp) >= 1:
        d0 = int(rng.integers(D))
        sels = [(slice(d0, D), slice(None)) + (slice(0, shp[0]),), (slice(None),), (Ellipsis,),
                (Ellipsis, slice(0, max(1, shp[-1] - 1)))]
        for si, sl in enumerate(sels):
            for lay in ('C', 'F', 'T', 'reversed'):
                stored = gen.relayout(data, lay)
                u = UTPM(stored)
                sub = np.array(data, order='C')[sl]
                forms = [(sub.shape[0], sub.shape[1], int(np.prod(sub.shape[2:], dtype=int)))]
                if sub.ndim >= 4 and sub.shape[3] * sub.shape[2] > 0:
                    forms.append(sub.shape[:2] + (sub.shape[3] * sub.shape[2],) + sub.shape[4:])
                    forms.append(sub.shape[:2] + (1,) + sub.shape[2:])
                for newshp in forms:
                    for name, call in (('method', lambda: u.coeff_op(sl, newshp)), ('function', lambda: algopy.coeff_op(u, sl, newshp))):
                        if name == 'function' and (si or lay != 'F'):
                            continue
                        y = call()
                        if not (isinstance(y, UTPM) and _same(y.data, sub.reshape(newshp)) and _same(u.data, data)):
                            ctx.violation('coeff_op:values', {'D': D, 'P': P, 'shape': shp, 'stored': lay, 'selection': repr(sl),
                                                              'new_shape': newshp, 'via': name}); return
                        ctx.ok('coeff_op', ('co', si, lay, name) + cls, exact=True)


def _sym(ctx, p, rng):
    D, P, kind, n, uplo = p['D'], p['P'], p['vals'], p['n'], p['UPLO']
    cls = (D, P, kind, n, uplo)
    m = n * (n + 1) // 2
    iu = np.triu_indices(n)
    # vector -> matrix -> vector (all storage conventions)
    vd = _vals(rng, (D, P, m), kind)
    for wrap in ('utpm', 'ndarray'):
        if wrap == 'ndarray':
            v = vd[0, 0].copy(); Aref = np.zeros((n, n), dtype=vd.dtype); Aref[iu] = v; Aref.T[iu] = v
            A = algopy.vecsym(v)
            v2 = algopy.symvec(A, uplo)
            ok = _same(A, Aref) and _same(v2, v)
        else:
            v = UTPM(vd.copy())
            A = [algopy.vecsym(v), UTPM.vecsym(v)][n % 2]
            Aref = np.zeros((D, P, n, n), dtype=vd.dtype)
            Aref[(slice(None), slice(None)) + iu] = vd
            Aref.transpose(0, 1, 3, 2)[(slice(None), slice(None)) + iu] = vd
            v2 = [algopy.symvec(A, uplo), UTPM.symvec(A, UPLO=uplo)][n % 2]
            ok = isinstance(A, UTPM) and _same(A.data, Aref) and isinstance(v2, UTPM) and _same(v2.data, vd) and _same(v.data, vd)
        if not ok:
            ctx.violation('vecsym_symvec:%s:%s' % (uplo, wrap), {'D': D, 'P': P, 'n': n, 'UPLO': uplo, 'vals': kind}); return
        ctx.ok('vecsym_symvec', ('vs', wrap) + cls, exact=True)
        # symmetric matrix -> vector -> matrix
        if wrap == 'ndarray':
            S = _vals(rng, (n, n), kind); S = np.triu(S) + np.triu(S, 1).T
            w = algopy.symvec(S, uplo)
            ok = _same(w, S[iu]) and _same(algopy.vecsym(w), S)
            if ok and uplo == 'F' and kind == 'integers':
                # a non-symmetric integer-typed matrix is symmetrized: the entries (a + b) / 2 are not integers (the docstring's example)
                Ai = rng.integers(-4, 5, size=(n, n))
                wi = np.asarray(algopy.symvec(Ai, 'F'), dtype=float)
                ok = _same(wi, (0.5 * (Ai + Ai.T))[iu])
        else:
            Sd = _vals(rng, (D, P, n, n), kind)
            Sd = np.triu(Sd) + np.triu(Sd, 1).transpose(0, 1, 3, 2)
            S = UTPM(Sd.copy())
            w = algopy.symvec(S, uplo)
            ok = isinstance(w, UTPM) and _same(w.data, Sd[(slice(None), slice(None)) + iu]) and _same(algopy.vecsym(w).data, Sd) and _same(S.data, Sd)
        if not ok:
            ctx.violation('symvec_vecsym:%s:%s' % (uplo, wrap), {'D': D, 'P': P, 'n': n, 'UPLO': uplo, 'vals': kind}); return
        ctx.ok('symvec_vecsym', ('sv', wrap) + cls, exact=True)
    _tri_storage(ctx, D, P, kind, n, uplo, cls, rng)


def _tri_storage(ctx, D, P, kind, n, uplo, cls, rng):
    """triangular storage: with UPLO 'L' / 'U' only the named triangle defines the matrix, whatever the other one holds;
    'F' symmetrizes.  Same answer for ndarray, UTPM and traced (Function) arguments, and from a replay of the recorded node"""
    iu = np.triu_indices(n)
    Md = _vals(rng, (D, P, n, n), 'random' if kind == 'nonfinite' else kind)
    MdT = Md.transpose(0, 1, 3, 2)
    want = {'U': Md[(slice(None), slice(None)) + iu], 'L': MdT[(slice(None), slice(None)) + iu],
            'F': 0.5 * (Md + MdT)[(slice(None), slice(None)) + iu]}[uplo]
    from algopy import Function, CGraph
    for wrap in ('ndarray', 'utpm', 'function-ndarray', 'function-utpm', 'traced'):
        try:
            if wrap == 'ndarray':
                got = algopy.symvec(Md[0, 0].copy(), uplo); ok = _same(got, want[0, 0])
            elif wrap == 'utpm':
                got = algopy.symvec(UTPM(Md.copy()), uplo); ok = _same(got.data, want)
            elif wrap == 'function-ndarray':
                got = algopy.symvec(Function(Md[0, 0].copy()), uplo); ok = _same(got.x, want[0, 0])
            elif wrap == 'function-utpm':
                got = [algopy.symvec(Function(UTPM(Md.copy())), uplo), algopy.symvec(Function(UTPM(Md.copy())), UPLO=uplo)][n % 2]; ok = _same(got.x.data, want)
            else:
                cg = CGraph()
                X = Function(UTPM(np.ones((1, 1, n, n))))
                Y = algopy.symvec(X, uplo)
                cg.trace_off(); cg.independentFunctionList = [X]; cg.dependentFunctionList = [Y]
                cg.pushforward([UTPM(Md.copy())])
                ok = _same(cg.dependentFunctionList[0].x.data, want)
        except Exception as e:
            ctx.violation('symvec:triangular-storage:%s:%s:raises' % (uplo, wrap), {'D': D, 'P': P, 'n': n, 'error': repr(e)[:200]}); return
        if not ok:
            ctx.violation('symvec:triangular-storage:%s:%s' % (uplo, wrap), {'D': D, 'P': P, 'n': n, 'UPLO': uplo, 'vals': kind}); return
        ctx.ok('symvec_triangular_storage', ('ts', wrap) + cls, exact=(uplo != 'F'))


def _perm_from_piv(piv):
    """independent model of LAPACK's ipiv: row i was interchanged with row piv[i], in order"""
    N = len(piv)
    rows = list(range(N))
    for i, pi in enumerate(piv):
        rows[i], rows[pi] = rows[pi], rows[i]
    return rows          # (P^T A)[i] = A[rows[i]]


def _parity(rows):
    seen = [False] * len(rows); sign = 1
    for i in range(len(rows)):
        if not seen[i]:
            j, L = i, 0
            while not seen[j]:
                seen[j] = True; j = rows[j]; L += 1
            if L % 2 == 0:
                sign = -sign
    return sign


def _piv(ctx, p, rng):
    N = p['N']
    allp = list(itertools.product(*[range(i, N) for i in range(N)]))[p['start']:p['stop']]
    for piv in allp:
        piv = np.array(piv, dtype=np.int32)
        rows = _perm_from_piv(piv)
        Pm = np.zeros((N, N)); Pm[rows, np.arange(N)] = 1.0          # P with A = P L U, i.e. (P^T A)[i] = A[rows[i]]
        W = U.piv2mat(piv)
        if not (W.shape == (N, N) and np.array_equal(W, Pm)):
            ctx.violation('piv2mat:value', {'N': N, 'piv': piv.tolist()}); return
        ctx.ok('piv2mat', ('piv2mat', N), exact=True)
        sg = U.piv2det(piv)
        if sg != _parity(rows):
            ctx.violation('piv2det:sign', {'N': N, 'piv': piv.tolist(), 'got': int(sg), 'want': _parity(rows)}); return
        ctx.ok('piv2det', ('piv2det', N), exact=True)
        # realise the pivot vector with an actual matrix
        L = np.tril(rng.uniform(-0.45, 0.45, size=(N, N)), -1) + np.eye(N)
        Uu = np.triu(rng.uniform(-1, 1, size=(N, N)), 1) + np.diag(rng.uniform(1.5, 3.0, size=N) * rng.choice([-1, 1], size=N))
        A = Pm @ L @ Uu
        lu, piv_got = scipy.linalg.lu_factor(A)
        if not np.array_equal(piv_got, piv):
            ctx.skip('lu_factor returned a different pivot vector')
            continue
        L2 = np.tril(lu, -1) + np.eye(N); U2 = np.triu(lu)
        res = np.max(np.abs(U.piv2mat(piv_got) @ L2 @ U2 - A))
        det = U.piv2det(piv_got) * np.prod(np.diag(U2))
        ref = _parity(rows) * np.prod(np.diag(Uu))
        if not (res <= 1e-12 * N and abs(det - ref) <= 1e-10 * abs(ref) and abs(det - np.linalg.det(A)) <= 1e-9 * abs(ref)):
            ctx.violation('piv_plu:residual', {'N': N, 'piv': piv.tolist(), 'residual': float(res), 'det': float(det), 'want': float(ref)}); return
        ctx.ok('piv_plu', ('plu', N, tuple(int(v) for v in piv)) if N <= 4 else ('plu', N, _parity(rows), int(np.sum(piv != np.arange(N)))),
               sample={'N': N, 'piv': piv.tolist(), 'sign': int(sg)} if rng.random() < 0.003 else None)


def finish(ctx):
    from .. import core
    ctx.extra['pivot_vectors_enumerated_up_to_N'] = NMAX[ctx.tier]
    return core.finish(ctx, REQUIRED, RULE, assumptions=ASSUMPTIONS)
