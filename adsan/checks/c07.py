"""C07 - linear-algebra functions propagate matrix Taylor polynomials correctly.
Monitor: postcondition on dot/outer/trace/inv/solve/det/logdet/expm.
Oracles: truncated convolution of NumPy products in extended precision (bilinear ops), defining equations
A inv(A) = I, A X = B (O-eq), exact polynomial determinant in rationals (O-Q), mp log of the exact det series,
matrix exponential series in extended precision."""
import itertools
import numpy as np
import mpmath as mp
import algopy
from algopy import UTPM
from ..core import case_seed
from .. import lin, gen, qser as Q, mporacle as O

PID = 'C07'
TAU_BIL = 1e-12
TAU_RES = 1e-8
RULE = ('dot over all rank pairs (1..3)x(1..3) and kinds {UTPM,UTPM},{UTPM,ndarray},{ndarray,UTPM}; outer of vectors of '
        'equal and different length; trace; inv/solve/det/logdet for sizes 1..5 with well-conditioned base matrices, half of '
        'them requiring row pivoting, different base matrices per direction, multi- and single-column right-hand sides; expm '
        'with norm <= 0.3; D in 1..6, P in 1..3; a class = (op, kinds, ranks/size, D, P, pivoting); non-trivial = D>=2')
ASSUMPTIONS = ['NumPy dot/outer/trace/inv/solve/det on float64 slices are the specification of the zeroth order',
               'extended-precision (longdouble) convolution is the reference for bilinear operations',
               'condition number of base matrices <= 1e3 (guard)']
REQUIRED = ['dot:UU', 'dot:UA', 'dot:AU', 'outer:UU', 'outer:UA', 'outer:AU', 'trace', 'inv', 'solve:UU', 'solve:UA', 'solve:AU',
            'det', 'logdet', 'expm']


def cases(tier, seed):
    out = []
    Ds = [1, 2, 3, 5] if tier == 'quick' else [1, 2, 3, 4, 5, 6, 8]
    reps = 1 if tier == 'quick' else 500
    def add(kind, **prm):
        s = case_seed('C07', seed, kind, sorted(prm.items()))
        r = np.random.default_rng(s)
        prm.setdefault('P', int(r.integers(1, 4)))
        out.append({'kind': kind, 'seed': s, 'params': prm})
    for rep in range(reps):
        for D in Ds:
            for ra in (1, 2, 3):
                for rb in (1, 2, 3):
                    for kinds in ('UU', 'UA', 'AU'):
                        add('dot', D=D, ra=ra, rb=rb, kinds=kinds, rep=rep)
            for kinds in ('UU', 'UA', 'AU'):
                for eq in (True, False):
                    add('outer', D=D, kinds=kinds, equal=eq, rep=rep)
            for n in (1, 2, 3, 4):
                add('trace', D=D, n=n, rep=rep)
            for n in (1, 2, 3, 4, 5):
                for piv in (False, True):
                    add('inv', D=D, n=n, pivot=piv, rep=rep)
                    for kinds in ('UU', 'UA', 'AU'):
                        add('solve', D=D, n=n, pivot=piv, kinds=kinds, k=[1, 3][(n + D) % 2], rep=rep)
                    if n <= 4:
                        add('det', D=D, n=n, pivot=piv, rep=rep)
                        add('logdet', D=D, n=n, pivot=piv, rep=rep)
            for n in (1, 2, 3):
                add('expm', D=D, n=n, rep=rep)
            for n in (1, 2, 3):
                add('detcomplex', D=D, n=n, rep=rep)
        # a small base matrix with directions of ordinary size, followed to high order: choices taken from the size of the base
        # point alone (approximation order, scaling) must be good for the derivatives too
        for D in (7, 8):
            for n in (2, 3):
                for nb in (0.004, 0.012, 0.1):
                    add('expm', D=D, n=n, rep=rep, base_norm=nb)
        # many directions (a Jacobian of a function of 40 variables is one sweep with P = 40)
        for Pw in (33, 40, 70):
            for kinds in ('UU', 'UA', 'AU'):
                add('dot', D=2, ra=2, rb=1, kinds=kinds, rep=rep, P=Pw); add('dot', D=3, ra=1, rb=2, kinds=kinds, rep=rep, P=Pw)
                add('outer', D=2, kinds=kinds, equal=False, rep=rep, P=Pw)
                add('solve', D=2, n=3, pivot=True, kinds=kinds, k=1, rep=rep, P=Pw)
            add('inv', D=2, n=3, pivot=False, rep=rep, P=Pw); add('det', D=3, n=3, pivot=True, rep=rep, P=Pw); add('trace', D=2, n=3, rep=rep, P=Pw)
    return out


def _base(rng, n, pivot):
    """well-conditioned n x n base matrix; pivot=True: rows permuted so that partial pivoting must swap"""
    A = gen.well_conditioned(rng, n) + 0.0
    # make it diagonally heavy so that without permutation no pivoting happens
    A = A + np.diag(np.sign(np.diag(A)) * 3.0 + (np.diag(A) == 0) * 3.0)
    if pivot and n > 1:
        perm = rng.permutation(n)
        while np.array_equal(perm, np.arange(n)):
            perm = rng.permutation(n)
        A = A[perm]
    return A


def _mat_series(rng, D, P, n, m=None, pivot=False, scale=0.6):
    m = n if m is None else m
    x = scale * rng.normal(size=(D, P, n, m))
    for p in range(P):
        x[0, p] = _base(rng, n, pivot) if n == m else gen.well_conditioned(rng, n, m)
    if n == m and n >= 2 and rng.random() < 0.35:
        # base matrices with (almost) special structure: exactly / nearly symmetric, exactly / nearly triangular - a kernel must not
        # take a structure-specific shortcut on a matrix that only nearly has the structure
        for p in range(P):
            kind = int(rng.integers(4))
            B = x[0, p]
            if kind in (0, 1):
                S = B @ B.T / np.max(np.abs(B))
                x[0, p] = S if kind == 0 else S + 10.0 ** -float(rng.integers(6, 10)) * rng.normal(size=(n, n)) * np.max(np.abs(S))
            else:
                Tm = np.triu(0.3 * rng.normal(size=(n, n)), 1) + np.diag(rng.uniform(1.0, 2.0, size=n) * rng.choice([-1.0, 1.0], size=n))
                x[0, p] = Tm if kind == 2 else Tm + 10.0 ** -float(rng.integers(9, 12)) * np.tril(rng.normal(size=(n, n)), -1)
    # sparse higher-coefficient patterns now and then
    if D > 2 and rng.random() < 0.25:
        x[1:-1] = 0
    return x


def run_case(ctx, case):
    rng = gen.rng_of(case)
    return globals()['_' + case['kind']](ctx, case['params'], rng)


def _call(ctx, mech, f, *a):
    ut = [x for x in a if isinstance(x, UTPM) and x.data.size]
    if ut and int(abs(float(np.real(ut[0].data.reshape(-1)[0]))) * 1e6) % 2:
        # operands with a past: the same objects went through the same function with other higher-order coefficients (a curve
        # through the same base point, re-seeded in place direction by direction) before they hold the data of this case
        saved = [x.data.copy() for x in ut]
        for x in ut:
            if x.data.shape[0] > 1:
                x.data[1:] = (x.data[1:] * (-0.5 if x.data.dtype.kind in 'fc' else -2)).astype(x.data.dtype)
            else:
                x.data[...] = (x.data * (1.25 if x.data.dtype.kind in 'fc' else 2)).astype(x.data.dtype)
        try:
            f(*a)
        except Exception:
            pass
        for x, sv in zip(ut, saved):
            x.data[...] = sv
    try:
        return True, f(*a)
    except Exception as e:
        return False, e


def _dot(ctx, p, rng):
    D, P, ra, rb, kinds = p['D'], p['P'], p['ra'], p['rb'], p['kinds']
    k = int(rng.integers(1, 4))
    sa = tuple(int(v) for v in rng.integers(1, 4, size=ra - 1)) + (k,)
    sb = (k,) if rb == 1 else tuple(int(v) for v in rng.integers(1, 4, size=rb - 2)) + (k, int(rng.integers(1, 4)))
    a = rng.normal(size=(D, P) + sa); b = rng.normal(size=(D, P) + sb)
    if D > 2:
        # coefficient patterns: an identically zero interior coefficient with non-zero ones above it, sparse tails
        pat = int(rng.integers(5))
        for arr in (a, b):
            if pat == 1:
                arr[1] = 0
            elif pat == 2:
                arr[1:-1] = 0
            elif pat == 3:
                arr[int(rng.integers(1, D - 1))] = 0
    ucplx = rng.random() < 0.25          # complex polynomial operand(s)
    which = int(rng.integers(3))           # complex: left only / right only / both (mixed real-complex polynomial operands)
    if ucplx:
        a = a + 1j * rng.normal(size=a.shape) if (kinds[0] == 'U' and which != 1) else a
        b = b + 1j * rng.normal(size=b.shape) if (kinds[1] == 'U' and which != 0) else b
    elif kinds == 'UU' and rng.random() < 0.2:
        # integer-valued polynomial of integer dtype on one side
        if which == 0:
            a = np.round(3 * a).astype(np.int64)
        else:
            b = np.round(3 * b).astype(np.int64)
    cdt = ['float64', 'int64', 'float32', 'complex128'][int(rng.integers(4))] if kinds != 'UU' else 'float64'

    def const(c):
        c = c[0, 0]
        if cdt == 'int64':
            return np.round(3 * c).astype(np.int64)
        if cdt == 'float32':
            return c.astype(np.float32)
        if cdt == 'complex128':
            return c + 1j * rng.normal(size=c.shape)
        return c.copy()
    layout = gen.LAYOUTS[int(rng.integers(5))]
    if kinds == 'UA':
        Bc = const(b); b = lin.lift(Bc.astype(complex if np.iscomplexobj(Bc) else float), D, P)
    if kinds == 'AU':
        Ac = const(a); a = lin.lift(Ac.astype(complex if np.iscomplexobj(Ac) else float), D, P)
    A = UTPM(gen.relayout(a, layout)) if kinds[0] == 'U' else Ac
    B = UTPM(gen.relayout(b, layout)) if kinds[1] == 'U' else Bc
    mech = 'dot:%s:%dx%d' % (kinds, ra, rb) + ('' if cdt == 'float64' else ':const-' + cdt) + (':complex' if ucplx else '')
    entry = [algopy.dot, UTPM.dot][int(rng.integers(2))]
    ok, r = _call(ctx, mech, entry, A, B)
    if not ok:
        ctx.violation(mech + ':raises:' + type(r).__name__, {'kinds': kinds, 'sa': sa, 'sb': sb, 'D': D, 'P': P, 'error': repr(r)[:200]}); return
    ref, maj = lin.cdot(a, b)
    if not isinstance(r, UTPM) or r.data.shape != ref.shape:
        ctx.violation(mech + ':shape', {'kinds': kinds, 'sa': sa, 'sb': sb, 'got': getattr(getattr(r, 'data', None), 'shape', None), 'want': ref.shape}); return
    e = lin.rel_residual(r.data - ref, maj)
    if not e <= TAU_BIL:
        ctx.violation(mech + ':value', {'kinds': kinds, 'sa': sa, 'sb': sb, 'D': D, 'P': P, 'err_over_majorant': e}); return
    ctx.ok('dot:' + kinds, ('dot', kinds, ra, rb, D, P, cdt, ucplx, layout), noise=e,
           sample={'op': 'dot', 'kinds': kinds, 'a_shape': sa, 'b_shape': sb, 'D': D, 'P': P, 'err_over_majorant': e} if rng.random() < .03 else None)


def _outer(ctx, p, rng):
    D, P, kinds = p['D'], p['P'], p['kinds']
    n = int(rng.integers(1, 5)); m = n if p['equal'] else n + int(rng.integers(1, 3))
    a = rng.normal(size=(D, P, n)); b = rng.normal(size=(D, P, m))
    if D > 2:
        # coefficient patterns: first-order coefficients vanishing in some or all directions, an interior coefficient identically zero
        pat = int(rng.integers(5))
        for arr in (a, b):
            if pat == 1:
                arr[1] = 0
            elif pat == 2:
                arr[1, int(rng.integers(P))] = 0
            elif pat == 3:
                arr[1:-1] = 0
    if kinds == 'UA':
        b[1:] = 0; b[0, 1:] = b[0, 0]
    if kinds == 'AU':
        a[1:] = 0; a[0, 1:] = a[0, 0]
    mix = int(rng.integers(4))
    if mix == 1:          # one operand complex, the other real (either one): the result is complex
        if rng.random() < 0.5:
            a = a + 1j * rng.normal(size=a.shape) * (1.0 if kinds[0] == 'U' else (np.arange(D).reshape(-1, 1, 1) == 0))
            if kinds == 'AU':
                a[0, 1:] = a[0, 0]
        else:
            b = b + 1j * rng.normal(size=b.shape) * (1.0 if kinds[1] == 'U' else (np.arange(D).reshape(-1, 1, 1) == 0))
            if kinds == 'UA':
                b[0, 1:] = b[0, 0]
    A = UTPM(a.copy()) if kinds[0] == 'U' else a[0, 0].copy()
    B = UTPM(b.copy()) if kinds[1] == 'U' else b[0, 0].copy()
    mech = 'outer:%s:%s' % (kinds, 'equal' if n == m else 'different-length')
    ok, r = _call(ctx, mech, [algopy.outer, UTPM.outer][int(rng.integers(2))], A, B)
    if not ok:
        ctx.violation(mech + ':raises:' + type(r).__name__, {'n': n, 'm': m, 'D': D, 'P': P, 'error': repr(r)[:200]}); return
    ref, maj = lin.cdot(a, b, np.outer)
    if not isinstance(r, UTPM) or r.data.shape != ref.shape:
        ctx.violation(mech + ':shape', {'n': n, 'm': m, 'got': getattr(getattr(r, 'data', None), 'shape', None), 'want': ref.shape}); return
    e = lin.rel_residual(r.data - ref, maj)
    if not e <= TAU_BIL:
        ctx.violation(mech + ':value', {'n': n, 'm': m, 'D': D, 'P': P, 'err_over_majorant': e}); return
    ctx.ok('outer:' + kinds, ('outer', kinds, n, m, D, P), noise=e)


def _detcomplex(ctx, p, rng):
    """det / logdet of a complex matrix polynomial (n <= 3): the cofactor expansion evaluated with truncated Cauchy products"""
    D, P, n = p['D'], p['P'], p['n']
    a = rng.normal(size=(D, P, n, n)) + 1j * rng.normal(size=(D, P, n, n))
    a[0] += 3.0 * np.eye(n)

    def mul(u, v):          # truncated product of two scalar polynomials (D, P)
        w = np.zeros((D, P), dtype=complex)
        for d in range(D):
            for c in range(d + 1):
                w[d] += u[c] * v[d - c]
        return w
    e = lambda i, j: a[:, :, i, j]
    if n == 1:
        ref = e(0, 0).copy()
    elif n == 2:
        ref = mul(e(0, 0), e(1, 1)) - mul(e(0, 1), e(1, 0))
    else:
        ref = (mul(e(0, 0), mul(e(1, 1), e(2, 2)) - mul(e(1, 2), e(2, 1))) - mul(e(0, 1), mul(e(1, 0), e(2, 2)) - mul(e(1, 2), e(2, 0)))
               + mul(e(0, 2), mul(e(1, 0), e(2, 1)) - mul(e(1, 1), e(2, 0))))
    for nm, f in (('det', algopy.det), ('det', UTPM.det)):
        ok, r = _call(ctx, 'det:complex', f, UTPM(a.copy()))
        if not ok:
            ctx.violation('det:complex:raises:' + type(r).__name__, {'n': n, 'D': D, 'P': P, 'error': repr(r)[:200]}); return
        if not isinstance(r, UTPM) or r.data.shape != (D, P) or not np.all(np.abs(r.data - ref) <= 1e-10 * (np.maximum.accumulate(np.abs(ref), axis=0) + 10.0 ** n)):
            ctx.violation('det:complex:value', {'n': n, 'D': D, 'P': P, 'max_abs_error': float(np.max(np.abs(np.asarray(getattr(r, 'data', np.nan)) - ref)))}); return
    ctx.ok('det', ('det', 'complex', n, D, P))


def _trace(ctx, p, rng):
    D, P, n = p['D'], p['P'], p['n']
    m = max(1, n + int(rng.integers(-3, 4)))          # square, wide and tall (by one and by more than one)
    a = rng.normal(size=(D, P, n, m))
    ok, r = _call(ctx, 'trace', [algopy.trace, UTPM.trace][int(rng.integers(2))], UTPM(gen.relayout(a, gen.LAYOUTS[int(rng.integers(5))])))
    if not ok:
        ctx.violation('trace:raises:' + type(r).__name__, {'n': n, 'm': m, 'error': repr(r)[:200]}); return
    ref = np.trace(a, axis1=2, axis2=3)
    if not isinstance(r, UTPM) or r.data.shape != ref.shape:
        ctx.violation('trace:shape', {'got': getattr(getattr(r, 'data', None), 'shape', None), 'want': ref.shape}); return
    e = float(np.max(np.abs(r.data - ref) / (np.sum(np.abs(a), axis=(2, 3)) + 1e-300)))
    if not e <= 1e-13:
        ctx.violation('trace:value', {'n': n, 'm': m, 'D': D, 'P': P, 'err': e}); return
    ctx.ok('trace', ('trace', n, m, D, P), noise=e)


def _inv(ctx, p, rng):
    D, P, n, pivot = p['D'], p['P'], p['n'], p['pivot']
    a = _mat_series(rng, D, P, n, pivot=pivot)
    a = a * (10.0 ** float([0, 0, -12, 12, -170, 160][int(rng.integers(6))]))      # the inverse is representable although det(A) may not be
    idt = None
    if rng.random() < 0.2:
        # integer-valued matrices stored with an integer dtype: the inverse is computed in floating point, as numpy.linalg.inv does
        a = np.round(a / np.max(np.abs(a[0])) * 5.0)
        idt = [np.int64, np.int32, np.int16][int(rng.integers(3))]
        if min(abs(np.linalg.det(a[0, pp])) for pp in range(P)) < 0.5:
            ctx.skip('out_of_domain:cond'); return
    cond = max(lin.cond2(a[0, pp]) for pp in range(P))
    if cond > 1e3:
        ctx.skip('out_of_domain:cond'); return
    mech = 'inv:%s' % ('pivot' if pivot else 'nopivot')
    ok, r = _call(ctx, mech, [algopy.inv, UTPM.inv][int(rng.integers(2))], UTPM(gen.relayout(a if idt is None else a.astype(idt), gen.LAYOUTS[int(rng.integers(5))])))
    if not ok:
        ctx.violation(mech + ':raises:' + type(r).__name__, {'n': n, 'D': D, 'P': P, 'error': repr(r)[:200]}); return
    if not isinstance(r, UTPM) or r.data.shape != a.shape:
        ctx.violation(mech + ':shape', {'got': getattr(getattr(r, 'data', None), 'shape', None)}); return
    R1, M1 = lin.cdot(a, r.data); R2, M2 = lin.cdot(r.data, a)
    I = lin.eye(D, P, n)
    e = max(lin.res_norm(R1 - I, M1 + I), lin.res_norm(R2 - I, M2 + I))
    z = max(np.max(np.abs(r.data[0, pp] - np.linalg.inv(a[0, pp]))) / np.max(np.abs(r.data[0, pp])) for pp in range(P))
    if not (e <= TAU_RES * cond and z <= 1e-12 * cond):
        ctx.violation(mech + (':value' if e > TAU_RES * cond else ':zeroth'), {'n': n, 'D': D, 'P': P, 'residual_over_majorant': e, 'zeroth_err': float(z), 'cond': cond}); return
    ctx.ok('inv', ('inv', n, D, P, pivot), noise=e / cond)


def _solve(ctx, p, rng):
    D, P, n, pivot, kinds, k = p['D'], p['P'], p['n'], p['pivot'], p['kinds'], p['k']
    a = _mat_series(rng, D, P, n, pivot=pivot)
    b = rng.normal(size=(D, P, n, k))
    if kinds == 'UA':
        b[1:] = 0; b[0, 1:] = b[0, 0]
    if kinds == 'AU':
        a[1:] = 0; a[0, 1:] = a[0, 0]
    sa = 10.0 ** float([0, 0, -12, 12, -150, 150][int(rng.integers(6))])
    a = a * sa; b = b * (sa if rng.random() < 0.5 else 1.0)
    if kinds != 'UU' and rng.random() < 0.3:
        # the constant operand complex, the polynomial operand real (and the other way round): the result is complex
        if (kinds == 'AU') == (rng.random() < 0.7):
            a = a + 0.3j * sa * rng.normal(size=a.shape) * (np.arange(a.shape[0]).reshape(-1, 1, 1, 1) == 0 if kinds == 'AU' else 1)
            if kinds == 'AU':
                a[0, 1:] = a[0, 0]
        else:
            b = b + 0.5j * rng.normal(size=b.shape) * np.max(np.abs(b)) * (np.arange(b.shape[0]).reshape(-1, 1, 1, 1) == 0 if kinds == 'UA' else 1)
            if kinds == 'UA':
                b[0, 1:] = b[0, 0]
    idt = None
    if not np.iscomplexobj(a) and not np.iscomplexobj(b) and rng.random() < 0.2:
        # integer-valued operands stored with integer dtypes (both, or only one of them)
        a = np.round(a / np.max(np.abs(a[0])) * 5.0); b = np.round(b / max(np.max(np.abs(b)), 1e-300) * 4.0)
        idt = [(np.int64, np.int64), (np.int32, None), (None, np.int16), (np.int16, np.int32)][int(rng.integers(4))]
        if min(abs(np.linalg.det(a[0, pp])) for pp in range(P)) < 0.5:
            ctx.skip('out_of_domain:cond'); return
    cond = max(lin.cond2(a[0, pp]) for pp in range(P))
    if cond > 1e3:
        ctx.skip('out_of_domain:cond'); return
    lay = gen.LAYOUTS[int(rng.integers(5))]
    a_, b_ = (a, b) if idt is None else (a if idt[0] is None else a.astype(idt[0]), b if idt[1] is None else b.astype(idt[1]))
    A = UTPM(gen.relayout(a_, lay)) if kinds[0] == 'U' else np.array(a_[0, 0], order='F' if rng.random() < 0.5 else 'C')
    B = UTPM(gen.relayout(b_, gen.LAYOUTS[int(rng.integers(5))])) if kinds[1] == 'U' else np.array(b_[0, 0], order='F' if lay == 'F' else 'C')
    mech = 'solve:%s:%s:%s' % (kinds, 'pivot' if pivot else 'nopivot', 'multi' if k > 1 else 'single')
    ok, r = _call(ctx, mech, [algopy.solve, UTPM.solve][int(rng.integers(2))], A, B)
    if not ok:
        ctx.violation(mech + ':raises:' + type(r).__name__, {'n': n, 'k': k, 'D': D, 'P': P, 'error': repr(r)[:200]}); return
    if not isinstance(r, UTPM) or r.data.shape != b.shape:
        ctx.violation(mech + ':shape', {'got': getattr(getattr(r, 'data', None), 'shape', None), 'want': b.shape}); return
    R, M = lin.cdot(a, r.data)
    e = lin.res_norm(R - b, M + np.abs(b))
    z = max(np.max(np.abs(r.data[0, pp] - np.linalg.solve(a[0, pp], b[0, pp]))) / (np.max(np.abs(r.data[0, pp])) + 1e-300) for pp in range(P))
    if not (e <= TAU_RES * cond and z <= 1e-12 * cond):
        ctx.violation(mech + (':value' if e > TAU_RES * cond else ':zeroth'), {'n': n, 'k': k, 'D': D, 'P': P, 'residual_over_majorant': e, 'zeroth_err': float(z), 'cond': cond}); return
    ctx.ok('solve:' + kinds, ('solve', kinds, n, k, D, P, pivot), noise=e / cond)


def _exact_det(a_dp):
    """a_dp: (D,n,n) float coefficients of one direction; exact determinant series (Leibniz, rationals) + majorant"""
    D, n = a_dp.shape[0], a_dp.shape[1]
    S = [[Q.ser(a_dp[:, i, j]) for j in range(n)] for i in range(n)]
    SA = [[Q.absser(S[i][j]) for j in range(n)] for i in range(n)]
    det = Q.const(0, D); maj = Q.const(0, D)
    for perm in itertools.permutations(range(n)):
        sign = 1
        for i in range(n):
            for j in range(i + 1, n):
                if perm[i] > perm[j]:
                    sign = -sign
        t = Q.const(sign, D); tm = Q.const(1, D)
        for i in range(n):
            t = Q.mul(t, S[i][perm[i]]); tm = Q.mul(tm, SA[i][perm[i]])
        det = Q.add(det, t); maj = Q.add(maj, tm)
    return det, maj


def _det(ctx, p, rng, log=False):
    D, P, n, pivot = p['D'], p['P'], p['n'], p['pivot']
    a = _mat_series(rng, D, P, n, pivot=pivot)
    name = 'logdet' if log else 'det'
    if n >= 2 and rng.random() < 0.3:
        # the base matrix of EVERY direction exactly upper / lower triangular or diagonal, the higher coefficients full
        k = int(rng.integers(3))
        for pp in range(P):
            Tm = np.triu(0.4 * rng.normal(size=(n, n)), 1) + np.diag(rng.uniform(1.0, 2.0, size=n) * rng.choice([-1.0, 1.0], size=n))
            a[0, pp] = [Tm, Tm.T, np.diag(np.diag(Tm))][k]
    if log:
        for pp in range(P):
            if np.linalg.det(a[0, pp]) < 0 and rng.random() < 0.5:
                a[:, pp, 0, :] *= -1          # positive determinants, and negative ones: logdet is log|det| (numpy.linalg.slogdet(A)[1], what
                                              # algopy.logdet returns for a plain array), smooth wherever det != 0
        # determinants that over/underflow a double although log(det) is harmless
        a = a * (10.0 ** float([0, 0, -90, 90, -40][int(rng.integers(5))]))
    else:
        a = a * (10.0 ** float([0, 0, -12, 8, -40, 30][int(rng.integers(6))]))          # det scales like s^n (n <= 5): representable, far from 1
    cond = max(lin.cond2(a[0, pp]) for pp in range(P))
    if cond > 1e3:
        ctx.skip('out_of_domain:cond'); return
    mech = '%s:%s' % (name, 'pivot' if pivot else 'nopivot')
    f = {'det': [algopy.det, UTPM.det], 'logdet': [algopy.logdet, UTPM.logdet]}[name][int(rng.integers(2))]
    ok, r = _call(ctx, mech, f, UTPM(gen.relayout(a, gen.LAYOUTS[int(rng.integers(5))])))
    if not ok:
        ctx.violation(mech + ':raises:' + type(r).__name__, {'n': n, 'D': D, 'P': P, 'error': repr(r)[:200]}); return
    if not isinstance(r, UTPM) or r.data.shape != (D, P):
        ctx.violation(mech + ':shape', {'got': getattr(getattr(r, 'data', None), 'shape', None), 'want': (D, P)}); return
    worst = 0.0
    for pp in range(P):
        det, maj = _exact_det(a[:, pp])
        got = r.data[:, pp]
        if not log:
            worst_p = 0.0
            for d in range(D):
                if not np.isfinite(got[d]):
                    worst_p = float('inf'); break
                e = float(abs(Q.Fraction(float(got[d])) - det[d].re) / (maj[d].re + Q.Fraction(1, 10 ** 300)))
                worst_p = max(worst_p, e)
        else:
            # normalise by det_0 (exactly, in rationals) so that the log series is taken at 1 whatever the scale of det
            d0 = det[0].re
            ds = [mp.mpf((v.re / d0).numerator) / mp.mpf((v.re / d0).denominator) for v in det]
            ms = [mp.mpf((v.re / abs(d0)).numerator) / mp.mpf((v.re / abs(d0)).denominator) for v in maj]
            lk = O.taylor_coeffs(mp.log, mp.mpf(1), D - 1)
            ref = O.compose(lk, ds)
            mj = O.compose([abs(v) for v in lk], [mp.mpf(1)] + ms[1:])
            log_d0 = mp.log(mp.mpf(abs(d0.numerator))) - mp.log(mp.mpf(d0.denominator))
            ref[0] = ref[0] + log_d0
            mj[0] = abs(log_d0) + ms[0]
            worst_p = O.err_over_maj(list(got), ref, mj)
        worst = max(worst, worst_p)
        if not worst_p <= TAU_RES * cond:
            ctx.violation(mech + ':value', {'n': n, 'D': D, 'P': P, 'direction': pp, 'err_over_majorant': worst_p, 'cond': cond,
                                            'got': [float(v) for v in got][:4]}); return
    ctx.ok(name, (name, n, D, P, pivot), noise=worst / cond)


def _logdet(ctx, p, rng):
    return _det(ctx, p, rng, log=True)


def _expm(ctx, p, rng):
    D, P, n = p['D'], p['P'], p['n']
    a = rng.normal(size=(D, P, n, n))
    for d in range(D):
        for pp in range(P):
            a[d, pp] *= 0.3 / max(np.linalg.norm(a[d, pp], 1), 1e-12) * rng.uniform(0.2, 1.0)
            if p.get('base_norm'):
                a[d, pp] *= (p['base_norm'] if d == 0 else 0.5) / np.linalg.norm(a[d, pp], 1)
    ok, r = _call(ctx, 'expm', algopy.expm, UTPM(gen.relayout(a, gen.LAYOUTS[int(rng.integers(5))])))
    if not ok:
        ctx.violation('expm:raises:' + type(r).__name__, {'n': n, 'D': D, 'P': P, 'error': repr(r)[:200]}); return
    if not isinstance(r, UTPM) or r.data.shape != a.shape:
        ctx.violation('expm:shape', {'got': getattr(getattr(r, 'data', None), 'shape', None)}); return
    # reference: exp(A(t)) = sum_k A(t)^k / k!  in truncated polynomial arithmetic, extended precision
    ref = lin.eye(D, P, n).astype(lin.LD); maj = ref.copy()
    term = ref.copy(); termm = ref.copy()
    for k in range(1, 40):
        term, _ = lin.cdot(term, a.astype(lin.LD)); term = term / k
        termm, _ = lin.cdot(termm, np.abs(a).astype(lin.LD)); termm = termm / k
        ref = ref + term; maj = maj + termm
    e = lin.rel_residual(r.data - ref, maj)
    if not e <= TAU_RES:
        ctx.violation('expm:value', {'n': n, 'D': D, 'P': P, 'err_over_majorant': e}); return
    ctx.ok('expm', ('expm', n, D, P), noise=e)
