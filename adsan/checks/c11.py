"""C11 - directions are propagated independently.
Monitor: shadow re-execution (O-self): for every depth-0 public call with P > 1 the probe re-runs the operation on the
single-direction inputs and compares; whole forward runs and reverse sweeps of recorded programs are split likewise.
Base points differ per direction and are chosen so that structure decisions differ between directions."""
import numpy as np
import algopy
from algopy import UTPM
from ..core import case_seed
from .. import gen, probe, monitors, pool, progs

PID = 'C11'
TOL = 1e-11
RULE = ('(a) DirectionMonitor on every depth-0 public UTPM call with P>1 while the workloads of C01 C02 C07 C08 C09 C13 run; '
        '(b) directed calls whose structure decisions differ per direction: pivot rows (lu/det/logdet/inv/solve), repeated vs distinct '
        'eigenvalues (eigh, svd), rank-deficient vs regular (qr), active branches (abs/sign/minimum/maximum/clip); (c) forward runs '
        'and reverse sweeps of every catalogue program and random compositions with P in {2,3}: result and xbar of direction p '
        'against the P=1 run on direction p alone (1e-11 x cumulative scale); class = (call or program, P, shapes); non-trivial = '
        'the directions have different zeroth coefficients')
ASSUMPTIONS = ['the same operation on the single-direction polynomial is the reference', 'rounding of vectorised kernels: 1e-11 relative to the cumulative magnitude']
REQUIRED = ['direction-shadow', 'structure:lu', 'structure:det', 'structure:eigh', 'structure:qr', 'structure:branches', 'structure:inplace', 'structure:magnitudes', 'structure:jacobian', 'program:forward', 'program:reverse']

_mon = None


def setup(ctx, tier):
    global _mon
    _mon = monitors.DirectionMonitor(ctx)
    probe.install([_mon])


def teardown(ctx):
    probe.S.monitors = ()
    n = 0
    for k in [k for k in ctx.ops if k.startswith('direction:')]:
        v = ctx.ops.pop(k); n += v
        ctx.extra.setdefault('shadowed_calls_by_name', {})[k.split(':', 1)[1]] = v
    ctx.ops['direction-shadow'] = n


def cases(tier, seed):
    out = pool.pool_cases(tier, seed, ['c01', 'c02', 'c07', 'c08', 'c13', 'c09'], 120 if tier == 'quick' else 3000)
    if tier == 'thorough':
        out.insert(0, pool.ambient_case(PID))
    if tier == 'thorough':
        out.insert(0, pool.ambient_docs_case(PID))
    reps = 2 if tier == 'quick' else 40
    for rep in range(reps):
        for D in (1, 2, 4):
            for P in (2, 3):
                for k in ('lu', 'det', 'eigh', 'qr', 'branches', 'inplace', 'magnitudes', 'jacobian', 'powarray', 'mixedrank'):
                    out.append({'kind': 'structure', 'seed': case_seed('C11', seed, k, D, P, rep), 'params': {'what': k, 'D': D, 'P': P}})
    for prog in progs.cat():
        if {'fancy', 'augmented'} & prog.tags:
            continue
        for rep in range((1 if tier == 'quick' else 3) * (5 if 'zero-base' in prog.tags else 1)):          # exact zeros in some directions only: several draws
            out.append({'kind': 'program', 'seed': case_seed('C11', seed, prog.name, rep), 'params': {'prog': prog.name, 'P': 2 + rep % 2, 'D': [2, 1, 3][rep % 3]}})
    for i in range(80 if tier == 'quick' else 20000):
        out.append({'kind': 'program', 'seed': case_seed('C11', seed, 'comp', i), 'params': {'prog': 'comp', 'P': 2 + i % 2, 'D': 1 + i % 3}})
    for k, (shape, D, P) in enumerate([((64, 64), 3, 7), ((200,), 2, 200), ((48, 50), 2, 29), ((300,), 4, 57)] if tier == 'quick' else
                                      [((64, 64), 3, 7), ((200,), 2, 200), ((48, 50), 2, 29), ((300,), 4, 57), ((128, 65), 2, 5), ((40, 40), 5, 9),
                                       ((1000,), 3, 23), ((17, 19, 7), 3, 11), ((120,), 3, 121), ((70000,), 1, 3), ((2, 2), 2, 9000)]):
        for what in ('elementwise', 'reduction', 'unary-chain'):
            out.append({'kind': 'program', 'seed': case_seed('C11', seed, 'large', what, k), 'params': {'prog': 'large:' + what, 'shape': list(shape), 'D': D, 'P': P}})
    # one direction whose whole polynomial is 1e10 times larger than the others (factorizations and linear algebra are
    # homogeneous): thresholds and tolerances inside the kernels have to be taken per direction, in both sweeps
    for prog in progs.cat():
        if ({'fact', 'linalg'} & prog.tags) and not ({'fancy', 'scale'} & prog.tags):
            for rep in range(1 if tier == 'quick' else 4):
                if prog.name.startswith('svd') and rep % 2 == 1:
                    # svd decides the rank with the absolute threshold epsilon = 1e-8 (a documented parameter): a direction scaled to
                    # 1e-10 is, alone, a rank-0 input and outside "matrices with full rank"
                    continue
                out.append({'kind': 'program', 'seed': case_seed('C11', seed, prog.name, 'dirscale', rep),
                            'params': {'prog': prog.name, 'P': 2 + rep % 2, 'D': [2, 1, 3][rep % 3], 'dirscale': [1e10, 1e-10][rep % 2]}})
    return out


def run_case(ctx, case):
    if case['kind'] == 'pool':
        return pool.run_host(case)
    if case['kind'] in ('ambient', 'ambient-docs'):
        probe.S.suppress = True
        try:
            return pool.run_ambient(ctx, PID) if case['kind'] == 'ambient' else pool.run_ambient_docs(ctx, PID)
        finally:
            probe.S.suppress = False
    rng = gen.rng_of(case)
    if case['kind'] == 'structure':
        return _structure(ctx, case['params'], rng)
    return _program(ctx, case['params'], rng)


def _structure(ctx, p, rng):
    """the calls themselves are the workload: the installed DirectionMonitor compares each with its per-direction runs"""
    what, D, P = p['what'], p['D'], p['P']
    before = sum(ctx.violation_count.values())
    n = 3
    if what in ('lu', 'det'):
        a = gen.series_data(rng, D, P, (n, n), 'wcperm_pos', 'random', False, 0.4)
        X = UTPM(a)
        if what == 'lu':
            algopy.lu(X); UTPM.lu2(X); algopy.solve(X, UTPM(rng.normal(size=(D, P, n, 2)))); algopy.inv(X)
        else:
            algopy.det(X); algopy.logdet(X)
    elif what == 'eigh':
        a = gen.series_data(rng, D, P, (n, n), 'symrep', 'random', False, 0.3)
        a = 0.5 * (a + np.swapaxes(a, -1, -2))
        algopy.eigh(UTPM(a))
        b = gen.series_data(rng, D, P, (n, 2), 'R', 'random', False, 0.3)
        algopy.svd(UTPM(b))
    elif what == 'powarray':
        # an ARRAY of exponents: broadcast against the value axes, never against the direction axis - also when it has more axes than
        # the base and its leading axis happens to have length P
        for xs, rs in (((n,), (P, n)), ((), (P,)), ((n,), (n,)), ((2, n), (n,)), ((n,), (P + 1, n)), ((1,), (P, 1))):
            x = UTPM(gen.series_data(rng, D, P, xs, 'pos', 'random', False, 0.3))
            r = np.round(rng.uniform(0.5, 3.0, size=rs), 2)
            if rng.random() < 0.5:
                r = np.round(r)
            try:
                x ** r
            except Exception:
                ctx.skip('unsupported:pow-array-exponent')
    elif what == 'mixedrank':
        # one direction with a rank deficient base matrix next to regular ones: every direction gets the factorization it gets alone
        for shp in ((3, 2), (3, 3)):
            a = gen.series_data(rng, D, P, shp, 'R', 'random', False, 0.3)
            for pp in range(P):
                a[0, pp] = gen.well_conditioned(rng, shp[0], shp[1])
            k = int(rng.integers(P))
            a[0, k][:, -1] = 2.0 * a[0, k][:, 0]                 # direction k: rank shp[1] - 1
            ctx.direction_tag = ':directions-of-different-rank'
            try:
                algopy.svd(UTPM(a.copy()))
            except Exception:
                ctx.skip('unsupported:svd-rank-deficient')
            finally:
                ctx.direction_tag = ''
            from algopy import CGraph, Function
            try:
                cg = CGraph(); F = Function(UTPM(a.copy())); Qf, Rf = algopy.qr(F); cg.trace_off()
                cg.independentFunctionList = [F]; cg.dependentFunctionList = [Qf, Rf]
                cg.pullback([UTPM(rng.normal(size=Qf.x.data.shape)), UTPM(rng.normal(size=Rf.x.data.shape))])
            except Exception:
                ctx.skip('unsupported:qr-pullback-rank-deficient')
    elif what == 'qr':
        for shp in ((4, 3), (3, 3)):
            a = gen.series_data(rng, D, P, shp, 'rankdef', 'random', False, 0.3)
            try:
                algopy.qr(UTPM(a))
            except Exception:
                ctx.skip('unsupported:qr-rank-deficient')
    elif what == 'magnitudes':
        # one direction with close (but distinct) eigen/singular values, another one with entries 1e4..1e6 times larger:
        # thresholds must be decided per direction
        big = 10.0 ** float(rng.integers(4, 7))
        a = np.zeros((D, P, n, n))
        for pp in range(P):
            Qm, _ = np.linalg.qr(rng.normal(size=(n, n)))
            if pp == 0:
                lam = np.array([1.0, 1.0 + 10.0 ** -float(rng.integers(5, 7)), 3.0])
                a[0, pp] = (Qm * lam) @ Qm.T
                a[1:, pp] = 0.3 * rng.normal(size=(D - 1, n, n))
            else:
                a[0, pp] = big * gen.sym_with_gaps(rng, n)
                a[1:, pp] = big * 0.3 * rng.normal(size=(D - 1, n, n))
        a = 0.5 * (a + np.swapaxes(a, -1, -2))
        algopy.eigh(UTPM(a)); algopy.svd(UTPM(a)); algopy.qr(UTPM(a)); algopy.inv(UTPM(a + 5 * np.eye(n)))
        # well-conditioned matrices, one direction 1e17 (resp. 1e-12) times larger than the others: rank decisions and pivoting per direction
        for big2 in (1e17, 1e-12, 'overflow'):
            b = gen.series_data(rng, D, P, (n, n), 'R', 'random', False, 0.3)
            for pp in range(P):
                b[0, pp] = gen.well_conditioned(rng, n, n) + 2 * np.eye(n)
            if big2 == 'overflow':
                # the higher coefficients of direction 0 are so large that its products overflow: that is direction 0's problem only
                big2 = 1.0
                if D > 1:
                    b[1:, 0] *= 1e170
            else:
                b[:, 0] *= big2
            B = UTPM(b)
            algopy.qr(B); algopy.qr(UTPM(b[:, :, :, :2].copy())); algopy.lu(B); UTPM.lu2(B); UTPM.lu_factor(B) if hasattr(UTPM, 'lu_factor') else None
            algopy.inv(B); algopy.solve(B, UTPM(rng.normal(size=(D, P, n, 2)))); algopy.solve(B, rng.normal(size=(n, 2))); algopy.det(B)
            sp_ = np.einsum('dpij,dpkj->dpik', b[:1], b[:1]); bs = b.copy(); bs[0] = sp_[0] / np.max(np.abs(sp_[0]), axis=(1, 2), keepdims=True) * np.abs(big2 if False else 1.0)
            bs = 0.5 * (bs + np.swapaxes(bs, -1, -2)); bs[0] += 2 * np.eye(n); bs[:, 0] *= big2
            algopy.cholesky(UTPM(bs))
    elif what == 'jacobian':
        # CGraph.jacobian with a Taylor-polynomial argument carrying several different directions
        from .. import polyprog as PP
        N, M = 3, int(rng.integers(2, 4))
        polys = [PP.random_poly(rng, N, 3, 4) for _ in range(M)]
        f = lambda x: PP.evaluate(algopy, polys, x, -1)
        probe.S.suppress = True
        try:
            cg, _ = progs.record(f, [rng.normal(size=N)])
            xc = gen.series_data(rng, max(D, 2), P, (N,), 'R', 'random', False, 0.5)
            J = cg.jacobian(UTPM(xc.copy())).data.copy()
            for pp in range(P):
                J1 = cg.jacobian(UTPM(xc[:, pp:pp + 1].copy())).data
                if J1.shape != J[:, pp:pp + 1].shape or not np.allclose(J[:, pp:pp + 1], J1, rtol=1e-11, atol=1e-11 * (1 + np.max(np.abs(J1)))):
                    ctx.violation('direction:CGraph.jacobian:value', {'D': D, 'P': P, 'M': M, 'direction': pp}); return
        finally:
            probe.S.suppress = False
    elif what == 'inplace':
        # in-place operators whose right operand has lower rank, with the direction count equal to an element axis (P == N)
        for shape in ((P,), (P, P), (2, P)):
            for nm in ('__iadd__', '__isub__', '__imul__', '__itruediv__'):
                y = UTPM(gen.series_data(rng, D, P, shape, 'nz', 'random', False, 0.5))
                s_ = UTPM(gen.series_data(rng, D, P, shape[1:], 'nz', 'random', False, 0.5))
                try:
                    getattr(y, nm)(s_)
                except Exception:
                    ctx.skip('sut-raises:inplace')
    else:
        a = gen.series_data(rng, D, P, (4,), 'nz', 'random', False, 0.5)      # signs differ between directions and elements
        b = gen.series_data(rng, D, P, (4,), 'nz', 'random', False, 0.5)
        X, Y = UTPM(a), UTPM(b)
        algopy.absolute(X); abs(X); algopy.sign(X); algopy.minimum(X, Y); algopy.maximum(X, Y)
        algopy.special.botched_clip(-0.9, 0.9, X); UTPM.max(X); UTPM.argmax(X)
    if sum(ctx.violation_count.values()) == before:
        ctx.ok('structure:' + what, ('structure', what, D, P))


def _scale(b):
    D = b.shape[0]
    m = np.abs(b).reshape(D, -1).max(axis=1) if b.size else np.zeros(D)
    return np.maximum.accumulate(np.asarray(m, dtype=float)) + 1e-300


def _program(ctx, p, rng):
    D, P = p['D'], p['P']
    if p['prog'] == 'comp':
        desc, f = progs.random_program(rng, int(rng.integers(3, 10)), 'vector'); ins = [((3,), 'R')]; name = 'comp'; prog = None
    elif p['prog'].startswith('large:'):
        # many elements and/or many directions (an image-sized array, the N(N+1)/2 directions of a Hessian): kernels that work in
        # blocks have to cover every direction
        f = {'elementwise': lambda x: algopy.exp(0.3 * x) * algopy.sin(x) + x * x / (1.0 + x * x),
             'reduction': lambda x: algopy.sum(algopy.exp(0.5 * x) * x) + algopy.dot(x.reshape((x.size,)) if hasattr(x, 'reshape') else x, algopy.cos(x).reshape((x.size,))),
             'unary-chain': lambda x: algopy.exp(-algopy.log(1.0 + x * x)) - algopy.sqrt(2.0 + algopy.cos(x)) ** 3}[p['prog'].split(':')[1]]
        ins = [(tuple(p['shape']), 'R')]; name = p['prog'] + ':%s' % 'x'.join(map(str, p['shape'])); prog = None
    else:
        prog = progs.by_name(p['prog']); f = prog.f; ins = prog.ins; name = prog.name
        if prog.maxD:
            D = min(D, prog.maxD)
    xs = [gen.series_data(rng, D, P, shape, dom, 'random', False, 0.4) for shape, dom in ins]
    if prog is not None and not all(prog.in_domain([x[0, pp] for x in xs]) for pp in range(P)):
        ctx.skip('out_of_domain:regularity-condition'); return
    LIMIT = 1e8
    if p.get('dirscale'):
        for x in xs:
            x[:, P - 1] *= p['dirscale']
        LIMIT = 1e80
        name = name + ':one-direction-scaled'
    probe.S.suppress = True            # program-level comparison: the per-call shadow is not needed here
    try:
        try:
            cg, _ = progs.record(f, [x[0, 0].copy() for x in xs])
        except Exception:
            ctx.skip('not-traceable:' + name); return
        try:
            cg.pushforward([UTPM(x.copy()) for x in xs]); y = cg.dependentFunctionList[0].x
            if not isinstance(y, UTPM):
                ctx.skip('non-utpm-output'); return
            yfull = y.data.copy()
            ybar = rng.normal(size=yfull.shape)
            rev = True
            try:
                cg.pullback([UTPM(ybar.copy())])
                xbfull = [fx.xbar.data.copy() for fx in cg.independentFunctionList]
                if all(np.all(np.isfinite(xb)) for xb in xbfull) and max(np.max(np.abs(xb)) for xb in xbfull) > LIMIT:
                    rev = False; ctx.skip('out_of_domain:huge-adjoint')
                # a non-finite adjoint of the full run is compared below: out of the domain only if the reduced run is non-finite too
            except Exception:
                rev = False
        except Exception:
            ctx.skip('replay-raises:' + name); return
        if not np.all(np.isfinite(yfull)) or (yfull.size and np.max(np.abs(yfull)) > LIMIT):
            ctx.skip('out_of_domain:nonfinite'); return
        for pp in range(P):
            cg.pushforward([UTPM(x[:, pp:pp + 1].copy()) for x in xs])
            y1 = cg.dependentFunctionList[0].x.data
            s = _scale(y1)
            err = np.abs(yfull[:, pp:pp + 1] - y1).reshape(D, -1).max(axis=1) / s if y1.size else np.zeros(D)
            if y1.shape != yfull[:, pp:pp + 1].shape or not np.all(err <= TOL):
                ctx.violation('program:forward:%s' % name, {'program': name, 'D': D, 'P': P, 'direction': pp, 'err_over_scale': float(np.max(err))}); return
            if rev:
                cg.pullback([UTPM(ybar[:, pp:pp + 1].copy())])
                for fx, xb in zip(cg.independentFunctionList, xbfull):
                    x1 = fx.xbar.data
                    if not np.all(np.isfinite(x1)):
                        ctx.skip('out_of_domain:nonfinite-adjoint'); continue
                    s = _scale(x1) + 1e-9 * np.max(np.abs(ybar))
                    err = np.abs(xb[:, pp:pp + 1] - x1).reshape(D, -1).max(axis=1) / s
                    if not np.all(err <= TOL * 10):
                        ctx.violation('program:reverse:%s' % name, {'program': name, 'D': D, 'P': P, 'direction': pp, 'first_bad_order': int(np.argmax(err)),
                                                                    'err_over_scale': float(np.max(err))}); return
        ctx.ok('program:forward', ('pf', name, D, P))
        if rev:
            ctx.ok('program:reverse', ('pr', name, D, P))
    finally:
        probe.S.suppress = False


def finish(ctx):
    from .. import core
    ctx.extra['distinct_call_names_shadowed'] = len(ctx.extra.get('shadowed_calls_by_name', {}))
    return core.finish(ctx, REQUIRED, RULE, assumptions=ASSUMPTIONS)
