"""C08 - matrix factorizations satisfy their defining equations modulo t^D.
Monitor: postcondition on qr / qr_full / cholesky / lu / eigh / eig / svd; oracle O-eq (defining identities via
extended-precision truncated convolution), structure (triangularity, constant permutation, ordering) and the
zeroth coefficient against the NumPy/SciPy factorization of A_0."""
import numpy as np
import scipy.linalg
import algopy
from algopy import UTPM
from ..core import case_seed
from .. import lin, gen

PID = 'C08'
TAU = 1e-8
RULE = ('factorization x shape class {square, tall, wide where supported} x size <= 6 x D in 1..6 x P in 1..3 with different '
        'base matrices per direction x regularity class (full column rank; SPD; distinct eigenvalues; exactly repeated '
        'eigenvalues built as Q(t) diag(lam(t)) Q(t)^T splitting at order 1, 2, 3 or never; distinct singular values); every '
        'defining identity is evaluated at every order d<D with extended-precision convolution, tolerance 1e-8 x cond x majorant; '
        'a class = (factorization, M, N, D, P, regularity class); non-trivial = D>=2')
ASSUMPTIONS = ['NumPy/SciPy factorizations of the zeroth coefficient are the specification of order 0',
               'guards: |R_ii| >= 0.2, lambda_min >= 0.3, eigenvalue gaps >= 0.3 or exactly repeated by construction, '
               'singular values distinct (gap >= 0.25) and >= 0.4']
REQUIRED = ['qr:square', 'qr:tall', 'qr:wide', 'qr_full:square', 'qr_full:tall', 'cholesky', 'lu:nopivot', 'lu:pivot',
            'eigh:distinct', 'eigh:repeated', 'eigh:scaled', 'svd:epsilon-keyword', 'eig', 'svd:square', 'svd:tall', 'svd:wide']


def cases(tier, seed):
    out = []
    Ds = [1, 2, 3, 5, 6] if tier == 'quick' else [1, 2, 3, 4, 5, 6, 7]
    reps = 1 if tier == 'quick' else 600

    def add(kind, **prm):
        s = case_seed('C08', seed, kind, sorted(prm.items()))
        r = np.random.default_rng(s)
        prm.setdefault('P', [1, 2, 3, 4, 1, 2, 3, 6][int(r.integers(8))])
        out.append({'kind': kind, 'seed': s, 'params': prm})
    for rep in range(reps):
        for D in Ds:
            for (M, N) in [(1, 1), (2, 2), (4, 4), (3, 2), (5, 3), (6, 2), (2, 3), (3, 5)]:
                add('qr', D=D, M=M, N=N, rep=rep)
                if M >= N:
                    add('qr_full', D=D, M=M, N=N, rep=rep)
                add('svd', D=D, M=M, N=N, rep=rep)
            for n in (1, 2, 3, 5):
                add('cholesky', D=D, n=n, rep=rep)
                add('lu', D=D, n=n, pivot=False, rep=rep)
                add('lu', D=D, n=n, pivot=True, rep=rep)
                add('eigh', D=D, n=n, split=-1, rep=rep)          # distinct eigenvalues
                if D <= 2:
                    for vk in ('real', 'complex', 'hermitian'):
                        add('eig', D=D, n=n, vals=vk, rep=rep)
            add('eigh_scaled', D=D, n=4, rep=rep)
            if D in (2, 3):
                for sc in (1e-150, 1e-10, 1e10, 1e150):          # tiny and huge matrices (the factors are representable at every one of these scales)
                    add('qr', D=D, M=4, N=3, rep=rep, scale=sc); add('qr_full', D=D, M=3, N=3, rep=rep, scale=sc)
                    add('cholesky', D=D, n=3, rep=rep, scale=sc); add('lu', D=D, n=3, pivot=True, rep=rep, scale=sc)
                for sc in (1e-100, 1e-10, 1e8, 1e100):
                    add('eigh', D=D, n=3, split=-1, rep=rep, scale=sc); add('svd', D=D, M=3, N=3, rep=rep, scale=sc); add('svd', D=D, M=4, N=2, rep=rep, scale=sc)
            if D >= 5:
                for rep2 in range(2):
                    add('eigh', D=D, n=3, split=-1, rep=rep, lowdeg='interior', rep2=rep2); add('svd', D=D, M=3, N=3, rep=rep, lowdeg='interior', rep2=rep2)
                    add('qr', D=D, M=4, N=3, rep=rep, lowdeg='interior', rep2=rep2); add('cholesky', D=D, n=3, rep=rep, lowdeg='interior', rep2=rep2)
                    add('lu', D=D, n=3, pivot=True, rep=rep, lowdeg='interior', rep2=rep2)
            if D >= 3:
                for lowdeg in (1, 2):          # A(t) = A0 resp. A0 + A1 t propagated with a larger D: the output is not of low degree
                    add('qr', D=D, M=4, N=3, rep=rep, lowdeg=lowdeg); add('qr_full', D=D, M=3, N=3, rep=rep, lowdeg=lowdeg)
                    add('cholesky', D=D, n=3, rep=rep, lowdeg=lowdeg); add('lu', D=D, n=3, pivot=True, rep=rep, lowdeg=lowdeg)
                    add('eigh', D=D, n=3, split=-1, rep=rep, lowdeg=lowdeg); add('svd', D=D, M=3, N=3, rep=rep, lowdeg=lowdeg)
            add('svd_eps', D=D, rep=rep)
            for n in (2, 3, 4, 5):
                for split in (1, 2, 3, 0):                        # order at which the repeated block splits; 0 = never
                    if split < D:
                        add('eigh', D=D, n=n, split=split, rep=rep)
    return out


def _prime(rng):
    """forward factorizations must not depend on what ran earlier in the process: now and then a reverse sweep through a
    randomly chosen factorization program is executed first (caches, class-level state, reused buffers)"""
    from .. import progs
    facts = [p for p in progs.cat() if 'fact' in p.tags and not p.maxD]
    prog = facts[int(rng.integers(len(facts)))]
    try:
        xs = prog.make_inputs(rng, 2, 1)
        cg, _ = progs.record(prog.f, [x[0, 0].copy() for x in xs])
        cg.pushforward([UTPM(x.copy()) for x in xs])
        y = cg.dependentFunctionList[0].x
        cg.pullback([UTPM(rng.normal(size=y.data.shape))])
    except Exception:
        pass


_LOWDEG = None
_SCALE = None


def run_case(ctx, case):
    global _LOWDEG, _SCALE
    _LOWDEG = case['params'].get('lowdeg')
    _SCALE = case['params'].get('scale')
    rng = gen.rng_of(case)
    if rng.random() < 0.35:
        _prime(rng)
    return globals()['_' + case['kind']](ctx, case['params'], rng)


def _series(rng, D, P, M, N, base, scale=0.5):
    x = scale * rng.normal(size=(D, P, M, N))
    for p in range(P):
        x[0, p] = base()
    if _LOWDEG == 'interior':
        x[int(rng.integers(1, max(2, D - 1)))] = 0.0          # A0 + A2 t^2 + ...: one interior coefficient vanishes identically, later ones do not
    elif _LOWDEG:
        x[min(_LOWDEG, D):] = 0.0              # the input is a polynomial of lower degree than the truncation degree (A0 + A1 t, ...)
    elif D >= 3 and rng.random() < 0.15:
        x[int(rng.integers(1, D)):] = 0.0
    if P >= 2 and rng.random() < 0.25:
        # neighbouring base points: the other directions start within 1e-7 ... 1e-13 (relative) of direction 0 without being equal to it
        for p in range(1, P):
            x[0, p] = x[0, 0] * (1.0 + 10.0 ** -float(rng.integers(7, 14)) * rng.normal(size=x[0, 0].shape))
    elif P >= 3 and rng.random() < 0.4:
        x[0, P - 1] = x[0, 0]              # the same base point again after a different one (X, Y, X): only the higher coefficients differ
    elif P >= 2 and rng.random() < 0.2:
        x[0, 1] = x[0, 0]
    if _SCALE:
        x *= _SCALE            # the whole polynomial scaled: factorizations are homogeneous, the checks below undo the scale
    return x


def _upper_violation(R, tol=1e-12):
    """max |entry below the diagonal| relative to max |R|"""
    D, P, K, N = R.shape
    mask = np.tril(np.ones((K, N)), -1).astype(bool)
    return float(np.max(np.abs(R[:, :, mask])) / (np.max(np.abs(R)) + 1e-300)) if mask.any() else 0.0


def _res(prod_pair, target):
    R, M = prod_pair
    return lin.res_norm(R - target, M + np.abs(target))


def _qr(ctx, p, rng, full=False):
    D, P, M, N = p['D'], p['P'], p['M'], p['N']
    name = 'qr_full' if full else 'qr'
    cls = 'square' if M == N else ('tall' if M > N else 'wide')
    a = _series(rng, D, P, M, N, lambda: gen.well_conditioned(rng, M, N))
    cond = max(lin.cond2(a[0, pp]) for pp in range(P))
    mech = '%s:%s' % (name, cls)
    K = M if full else min(M, N)
    use_out = rng.random() < 0.3          # preallocated, previously used output buffers (a loop re-using its outputs)
    kw = {'out': (UTPM(rng.normal(size=(D, P, M, K))), UTPM(rng.normal(size=(D, P, K, N))))} if use_out else {}
    if use_out:
        mech += ':reused-out'
    try:
        if _SCALE:
            mech += ':scale1e%+d' % int(round(np.log10(_SCALE)))
        if _SCALE and _SCALE < 1 and not full:
            # the rank threshold is an absolute, user-settable parameter: below its default it is passed
            Qm, R = UTPM.qr(UTPM(a.copy()), epsilon=[1e-14 * _SCALE, 0, 0.0][int(rng.integers(3))])          # 0: never treat a column as dependent
        elif use_out and M == N and rng.random() < 0.4:       # the overwrite-the-input form: one factor replaces A
            Ain = UTPM(a.copy())
            Qm, R = (UTPM.qr_full if full else UTPM.qr)(Ain, out=(Ain, kw['out'][1]) if rng.random() < .5 else (kw['out'][0], Ain))
        else:
            Qm, R = (UTPM.qr_full if full else UTPM.qr)(UTPM(gen.relayout(a, gen.LAYOUTS[int(rng.integers(5))])), **kw) if use_out else \
                (algopy.qr_full if full else algopy.qr)(UTPM(gen.relayout(a, gen.LAYOUTS[int(rng.integers(5))])))
    except Exception as e:
        ctx.violation(mech + ':raises:' + type(e).__name__, {'M': M, 'N': N, 'D': D, 'P': P, 'error': repr(e)[:200]}); return
    if Qm.data.shape != (D, P, M, K) or R.data.shape != (D, P, K, N):
        ctx.violation(mech + ':shape', {'Q': Qm.data.shape, 'R': R.data.shape, 'M': M, 'N': N}); return
    q, r = Qm.data, R.data
    if _SCALE:
        r = r / _SCALE; a = a / _SCALE
    e1 = _res(lin.cdot(q, r), a)
    e2 = _res(lin.cdot(lin.T(q), q), lin.eye(D, P, K))
    e3 = _upper_violation(r)
    z = 0.0
    for pp in range(P):
        q0, r0 = (scipy.linalg.qr(a[0, pp]) if full else np.linalg.qr(a[0, pp]))
        z = max(z, float(np.max(np.abs(q[0, pp] - q0))), float(np.max(np.abs(r[0, pp] - r0)) / np.max(np.abs(r0))))
    bad = [n for n, v, t in (('QR=A', e1, TAU * cond), ('QtQ=I', e2, TAU * cond), ('R-upper', e3, 1e-12), ('zeroth', z, 1e-12)) if not v <= t]
    if bad:
        ctx.violation(mech + ':' + bad[0], {'M': M, 'N': N, 'D': D, 'P': P, 'QR-A': e1, 'QtQ-I': e2, 'below-diagonal': e3, 'zeroth': z, 'cond': cond}); return
    ctx.ok(mech, (name, M, N, D, P), noise=max(e1, e2) / cond,
           sample={'fact': name, 'M': M, 'N': N, 'D': D, 'P': P, 'QR-A': e1, 'QtQ-I': e2} if rng.random() < .05 else None)


def _qr_full(ctx, p, rng):
    return _qr(ctx, p, rng, full=True)


def _cholesky(ctx, p, rng):
    D, P, n = p['D'], p['P'], p['n']
    a = _series(rng, D, P, n, n, lambda: gen.spd(rng, n), scale=0.4)
    a = 0.5 * (a + lin.T(a))
    cond = max(lin.cond2(a[0, pp]) for pp in range(P))
    use_out = rng.random() < 0.3
    try:
        if use_out and rng.random() < 0.4:          # the overwrite-the-input form: the factor replaces A
            Ain = UTPM(a.copy())
            L = UTPM.cholesky(Ain, out=Ain)
        else:
            L = UTPM.cholesky(UTPM(gen.relayout(a, gen.LAYOUTS[int(rng.integers(5))])), out=UTPM(rng.normal(size=a.shape))) if use_out else \
                algopy.cholesky(UTPM(gen.relayout(a, gen.LAYOUTS[int(rng.integers(5))])))
    except Exception as e:
        ctx.violation('cholesky:raises:' + type(e).__name__, {'n': n, 'D': D, 'P': P, 'error': repr(e)[:200]}); return
    if L.data.shape != a.shape:
        ctx.violation('cholesky:shape', {'got': L.data.shape}); return
    l = L.data
    if _SCALE:
        l = l / np.sqrt(_SCALE); a = a / _SCALE
    e1 = _res(lin.cdot(l, lin.T(l)), a)
    e3 = _upper_violation(lin.T(l))
    z = max(float(np.max(np.abs(l[0, pp] - np.linalg.cholesky(a[0, pp])))) for pp in range(P))
    bad = [nm for nm, v, t in (('LLt=A', e1, TAU * cond), ('L-lower', e3, 1e-12), ('zeroth', z, 1e-12)) if not v <= t]
    if bad:
        ctx.violation('cholesky:' + bad[0], {'n': n, 'D': D, 'P': P, 'LLt-A': e1, 'above-diagonal': e3, 'zeroth': z}); return
    ctx.ok('cholesky', ('cholesky', n, D, P), noise=e1 / cond)


def _lu(ctx, p, rng):
    D, P, n, pivot = p['D'], p['P'], p['n'], p['pivot']

    def base():
        A = gen.well_conditioned(rng, n)
        A = A + np.diag(np.sign(np.diag(A)) * 3.0 + (np.diag(A) == 0) * 3.0)
        if pivot and n > 1:
            perm = rng.permutation(n)
            while np.array_equal(perm, np.arange(n)):
                perm = rng.permutation(n)
            A = A[perm]
        return A
    a = _series(rng, D, P, n, n, base)
    cond = max(lin.cond2(a[0, pp]) for pp in range(P))
    mech = 'lu:%s' % ('pivot' if pivot else 'nopivot')
    try:
        W, L, Uu = algopy.lu(UTPM(gen.relayout(a, gen.LAYOUTS[int(rng.integers(5))])))
    except Exception as e:
        ctx.violation(mech + ':raises:' + type(e).__name__, {'n': n, 'D': D, 'P': P, 'error': repr(e)[:200]}); return
    w, l, u = W.data, L.data, Uu.data
    if _SCALE:
        u = u / _SCALE; a = a / _SCALE
    if not (w.shape == l.shape == u.shape == a.shape):
        ctx.violation(mech + ':shape', {'W': w.shape, 'L': l.shape, 'U': u.shape}); return
    LU, MLU = lin.cdot(l, u)
    WLU, M2 = lin.cdot(w, LU.astype(float))
    e1 = lin.res_norm(WLU - a, M2 + MLU + np.abs(a))
    perm_ok = all(np.array_equal(np.sort(w[0, pp], axis=0)[-1], np.ones(n)) and np.array_equal(w[0, pp].sum(axis=0), np.ones(n))
                  and set(np.unique(w[0, pp])) <= {0.0, 1.0} for pp in range(P)) and (D == 1 or np.all(w[1:] == 0))
    unit = float(np.max(np.abs(np.diagonal(l[0], axis1=1, axis2=2) - 1))) if True else 0
    diag_hi = float(np.max(np.abs(np.diagonal(l[1:], axis1=2, axis2=3)))) if D > 1 else 0.0
    e3 = max(_upper_violation(lin.T(l)), _upper_violation(u))
    z = 0.0
    for pp in range(P):
        w0, l0, u0 = scipy.linalg.lu(a[0, pp])
        z = max(z, float(np.max(np.abs(w[0, pp] - w0))), float(np.max(np.abs(l[0, pp] - l0))), float(np.max(np.abs(u[0, pp] - u0)) / np.max(np.abs(u0))))
    bad = [nm for nm, v, t in (('PLU=A', e1, TAU * cond), ('P-constant-permutation', 0.0 if perm_ok else 1.0, 0.5),
                               ('L-unit-diagonal', max(unit, diag_hi), 1e-12), ('triangular', e3, 1e-12), ('zeroth', z, 1e-12)) if not v <= t]
    if bad:
        ctx.violation(mech + ':' + bad[0], {'n': n, 'D': D, 'P': P, 'PLU-A': e1, 'perm_ok': perm_ok, 'unit': unit, 'diag_hi': diag_hi, 'tri': e3, 'zeroth': z}); return
    ctx.ok(mech, ('lu', n, D, P, pivot), noise=e1 / cond)


def _orth_series(rng, D, n, scale=0.5):
    """Q(t) = Q0 exp(S(t)), S skew polynomial without constant term: orthogonal modulo t^D"""
    Q0, _ = np.linalg.qr(rng.normal(size=(n, n)))
    S = scale * rng.normal(size=(D, 1, n, n)); S = S - lin.T(S); S[0] = 0
    E = lin.eye(D, 1, n).astype(lin.LD); term = E.copy()
    for k in range(1, D + 1):
        term, _ = lin.cdot(term, S.astype(lin.LD)); term = term / k
        E = E + term
    Qt, _ = lin.cdot(lin.lift(Q0, D, 1), E)
    return Qt                                                     # (D,1,n,n) longdouble


def _sym_repeated(rng, D, n, split):
    """A(t) = Q(t) diag(lam(t)) Q(t)^T with a block of multiplicity 2..3 in lam_0 that splits at order `split`
    (0: never).  Returns (D,n,n) float data and the eigenvalue series (D,n) sorted like eigh's output"""
    m = int(rng.integers(2, min(3, n) + 1))
    lam = np.zeros((D, n))
    base = np.cumsum(rng.uniform(0.5, 1.5, size=n - m + 1)) - 1.0
    k0 = int(rng.integers(n - m + 1))
    lam0 = np.concatenate([base[:k0], [base[k0]] * m, base[k0 + 1:]])
    lam[0] = np.sort(lam0)
    blk = np.where(lam[0] == base[k0])[0]
    for d in range(1, D):
        lam[d] = rng.normal(size=n) * 0.5
        if split == 0 or d < split:
            lam[d, blk] = lam[d, blk[0]]            # block stays together
        elif d == split:
            lam[d, blk] = lam[d, blk[0]] + np.arange(len(blk)) * rng.uniform(0.5, 1.0)   # distinct, ascending
    Qt = _orth_series(rng, D, n)
    Lm = np.zeros((D, 1, n, n));
    for d in range(D):
        Lm[d, 0] = np.diag(lam[d])
    QL, _ = lin.cdot(Qt, Lm.astype(lin.LD))
    A, _ = lin.cdot(QL, lin.T(Qt))
    A = np.asarray(A[:, 0], dtype=float)
    A = 0.5 * (A + np.swapaxes(A, -1, -2))
    return A, lam


def _eigh(ctx, p, rng):
    D, P, n, split = p['D'], p['P'], p['n'], p['split']
    a = np.zeros((D, P, n, n))
    lam_ref = None
    if split < 0:
        a = _series(rng, D, P, n, n, lambda: gen.sym_with_gaps(rng, n), scale=0.5)
        a = 0.5 * (a + lin.T(a))
        cls = 'distinct'
    else:
        lam_ref = np.zeros((D, P, n))
        for pp in range(P):
            a[:, pp], lam_ref[:, pp] = _sym_repeated(rng, D, n, split)
        cls = 'repeated'
    mech = 'eigh:%s' % cls + ('' if split < 0 else ':split%d' % split)
    use_out = rng.random() < 0.3
    if use_out:
        mech += ':reused-out'
    try:
        if _SCALE:
            mech += ':scale1e%+d' % int(round(np.log10(_SCALE)))
            # the threshold for repeated eigenvalues is an absolute, user-settable parameter: below its default it is passed
            l, Qm = UTPM.eigh(UTPM(a.copy()), epsilon=1e-8 * _SCALE) if _SCALE < 1 else UTPM.eigh(UTPM(a.copy()))
            l = UTPM(l.data / _SCALE); a = a / _SCALE
        elif use_out and rng.random() < 0.4:          # the overwrite-the-input form: the eigenvectors replace A
            Ain = UTPM(a.copy())
            l, Qm = UTPM.eigh(Ain, out=(UTPM(rng.normal(size=(D, P, n))), Ain))
        else:
            l, Qm = UTPM.eigh(UTPM(gen.relayout(a, gen.LAYOUTS[int(rng.integers(5))])), out=(UTPM(rng.normal(size=(D, P, n))), UTPM(rng.normal(size=(D, P, n, n))))) if use_out else \
                algopy.eigh(UTPM(gen.relayout(a, gen.LAYOUTS[int(rng.integers(5))])))
    except Exception as e:
        ctx.violation(mech + ':raises:' + type(e).__name__, {'n': n, 'D': D, 'P': P, 'split': split, 'error': repr(e)[:300]}); return
    if l.data.shape != (D, P, n) or Qm.data.shape != (D, P, n, n):
        ctx.violation(mech + ':shape', {'l': l.data.shape, 'Q': Qm.data.shape}); return
    q = Qm.data
    Lm = np.zeros((D, P, n, n))
    for d in range(D):
        for pp in range(P):
            Lm[d, pp] = np.diag(l.data[d, pp])
    AQ, M1 = lin.cdot(a, q); QL, M2 = lin.cdot(q, Lm)
    e1 = lin.res_norm(AQ - QL, M1 + M2)
    e2 = _res(lin.cdot(lin.T(q), q), lin.eye(D, P, n))
    asc = all(np.all(np.diff(l.data[0, pp]) >= -1e-12) for pp in range(P))
    z = max(float(np.max(np.abs(l.data[0, pp] - np.linalg.eigh(a[0, pp])[0]))) for pp in range(P))
    zq = 0.0
    if split < 0:
        zq = max(float(np.max(np.abs(q[0, pp] - np.linalg.eigh(a[0, pp])[1]))) for pp in range(P))
    el = 0.0
    if lam_ref is not None and split != 0:
        # uniquely defined: the eigenvalue series (constructed), compared after the block has split
        el = float(np.max(np.abs(np.sort(l.data, axis=2) - np.sort(lam_ref, axis=2))[: split + 1]))
    bad = [nm for nm, v, t in (('AQ=QL', e1, 1e-7), ('QtQ=I', e2, 1e-7), ('ascending', 0.0 if asc else 1.0, 0.5), ('zeroth-eigenvalues', z, 1e-10),
                               ('zeroth-eigenvectors', zq, 1e-10), ('eigenvalue-series', el, 1e-7)) if not v <= t]
    if bad:
        ctx.violation(mech + ':' + bad[0], {'n': n, 'D': D, 'P': P, 'split': split, 'AQ-QL': e1, 'QtQ-I': e2, 'zeroth': z, 'zeroth_Q': zq, 'lam_series': el}); return
    ctx.ok('eigh:' + cls, ('eigh', n, D, P, split), noise=max(e1, e2))


def _eigh_scaled(ctx, p, rng):
    """well separated in absolute terms, close in relative terms: eigenvalues s*(1 + small gaps) with s up to 1e6;
    the problem is well conditioned (eps*|A|/gap <= 1e-7), so the defining equations and NumPy's eigenvectors must be reproduced"""
    D, P, n = p['D'], p['P'], p['n']
    a = np.zeros((D, P, n, n)); lam0 = np.zeros((P, n))
    for pp in range(P):
        sc = 10.0 ** float(rng.integers(3, 7))
        Qm, _ = np.linalg.qr(rng.normal(size=(n, n)))
        lam = sc + np.sort(np.concatenate([[0.0, 10.0 ** -float(rng.integers(2, 4))], rng.uniform(0.5, 3.0, size=n - 2)]))
        a[0, pp] = (Qm * lam) @ Qm.T; lam0[pp] = lam
        a[1:, pp] = rng.normal(size=(D - 1, n, n))
    a = 0.5 * (a + lin.T(a))
    try:
        l, Qm = algopy.eigh(UTPM(a.copy()))
    except Exception as e:
        ctx.violation('eigh:scaled:raises', {'error': repr(e)[:200]}); return
    q = Qm.data
    Lm = np.zeros((D, P, n, n))
    for d in range(D):
        for pp in range(P):
            Lm[d, pp] = np.diag(l.data[d, pp])
    AQ, M1 = lin.cdot(a, q); QL, M2 = lin.cdot(q, Lm)
    # absolute residual relative to the size of the higher coefficients (O(1)), not to |A_0| ~ 1e6
    res = lin.res_norm(AQ - QL, M1 + M2)         # relative: Q_d legitimately grows like (|A_1|/gap)^d
    res0 = float(np.max(np.abs(AQ - QL)[0]) / np.max(np.abs(a[0])))
    zq = max(float(np.max(np.abs(q[0, pp] - np.linalg.eigh(a[0, pp])[1]))) for pp in range(P))
    # first-order eigenvalue coefficients from perturbation theory with NumPy's eigenvectors: lam_1 = diag(Q0^T A_1 Q0)
    pt = 0.0
    if D > 1:
        for pp in range(P):
            Q0 = np.linalg.eigh(a[0, pp])[1]
            pt = max(pt, float(np.max(np.abs(np.diag(Q0.T @ a[1, pp] @ Q0) - l.data[1, pp]))))
    bad = [nm for nm, v, t in (('AQ=QL:order0', res0, 1e-12), ('AQ=QL:relative', res, 1e-7), ('zeroth-eigenvectors', zq, 1e-10), ('first-order-eigenvalues', pt, 1e-6)) if not v <= t]
    if bad:
        ctx.violation('eigh:scaled:' + bad[0], {'n': n, 'D': D, 'P': P, 'res0': res0, 'res': res, 'zeroth_Q': zq, 'lam1': pt}); return
    ctx.ok('eigh:scaled', ('eigh_scaled', D, P), noise=res)


def _svd_eps(ctx, p, rng):
    """svd of a tiny-scaled matrix with a user-supplied rank threshold below the default"""
    D, P = p['D'], p['P']
    M, N = [(3, 3), (4, 2), (2, 3)][int(rng.integers(3))]
    K = min(M, N)
    sc = 10.0 ** -float(rng.integers(8, 11))
    a = 0.4 * rng.normal(size=(D, P, M, N))
    for pp in range(P):
        U, _ = np.linalg.qr(rng.normal(size=(M, M))); V, _ = np.linalg.qr(rng.normal(size=(N, N)))
        S = np.zeros((M, N)); S[:K, :K] = np.diag(np.sort(0.5 + np.cumsum(rng.uniform(0.4, 1.0, size=K)))[::-1])
        a[0, pp] = U @ S @ V.T
    a = a * sc
    try:
        U, s_, V = UTPM.svd(UTPM(a.copy()), epsilon=sc * 1e-5)
    except Exception as e:
        ctx.violation('svd:epsilon-keyword:raises', {'error': repr(e)[:200]}); return
    u, v = U.data, V.data
    S = np.zeros((D, P, M, N))
    for d in range(D):
        for pp in range(P):
            S[d, pp, :K, :K] = np.diag(s_.data[d, pp])
    US, _ = lin.cdot(u, S); USV, M2 = lin.cdot(US.astype(float), lin.T(v))
    e1 = lin.res_norm(USV - a, M2 + np.abs(a))
    e2 = max(_res(lin.cdot(lin.T(u), u), lin.eye(D, P, M)), _res(lin.cdot(lin.T(v), v), lin.eye(D, P, N)))
    z = max(float(np.max(np.abs(s_.data[0, pp] - np.linalg.svd(a[0, pp], compute_uv=False))) / sc) for pp in range(P))
    bad = [nm for nm, vv, t in (('USVt=A', e1, 1e-6), ('orthogonal', e2, 1e-6), ('zeroth-singular-values', z, 1e-9)) if not vv <= t]
    if bad:
        ctx.violation('svd:epsilon-keyword:' + bad[0], {'M': M, 'N': N, 'D': D, 'P': P, 'USVt-A': e1, 'orth': e2, 'zeroth': z}); return
    ctx.ok('svd:epsilon-keyword', ('svd_eps', M, N, D, P), noise=max(e1, e2))


def _eig(ctx, p, rng):
    D, P, n = p['D'], p['P'], p['n']
    kind = p.get('vals', 'real')      # real | complex (general) | hermitian (real spectrum, complex eigenvectors)

    def base():
        V = gen.well_conditioned(rng, n)
        lam = np.cumsum(rng.uniform(0.4, 1.2, size=n)) - 1.0
        if kind == 'real':
            return V @ np.diag(lam) @ np.linalg.inv(V)
        if kind == 'hermitian':
            Qc, _ = np.linalg.qr(rng.normal(size=(n, n)) + 1j * rng.normal(size=(n, n)))
            return Qc @ np.diag(lam) @ Qc.conj().T
        Vc = V + 0.5j * gen.well_conditioned(rng, n)
        return Vc @ np.diag(lam + 0.7j * rng.normal(size=n)) @ np.linalg.inv(Vc)
    a = 0.4 * rng.normal(size=(D, P, n, n)) + (0.4j * rng.normal(size=(D, P, n, n)) if kind != 'real' else 0)
    for pp in range(P):
        a[0, pp] = base()
    if kind == 'hermitian':
        a = 0.5 * (a + np.conj(lin.T(a)))
    mech = 'eig:' + kind
    try:
        l, Qm = algopy.eig(UTPM(gen.relayout(a, gen.LAYOUTS[int(rng.integers(5))])))
    except Exception as e:
        ctx.violation(mech + ':raises:' + type(e).__name__, {'n': n, 'D': D, 'P': P, 'error': repr(e)[:200]}); return
    if l.data.shape != (D, P, n) or Qm.data.shape != (D, P, n, n):
        ctx.violation(mech + ':shape', {'l': l.data.shape, 'Q': Qm.data.shape}); return
    q = Qm.data
    Lm = np.zeros((D, P, n, n), dtype=l.data.dtype)
    for d in range(D):
        for pp in range(P):
            Lm[d, pp] = np.diag(l.data[d, pp])
    AQ, M1 = lin.cdot(a, q); QL, M2 = lin.cdot(q, Lm)
    e1 = lin.res_norm(AQ - QL, M1 + M2)
    z = max(float(np.max(np.abs(np.sort_complex(l.data[0, pp]) - np.sort_complex(np.linalg.eigvals(a[0, pp]))))) for pp in range(P))
    sv = [np.linalg.svd(q[0, pp], compute_uv=False) for pp in range(P)]
    cq = max(float(s_[0] / s_[-1]) if s_[-1] > 0 else np.inf for s_ in sv)
    if not (e1 <= 1e-7 * cq and z <= 1e-9 * cq):
        ctx.violation(mech + ':' + ('AQ=QL' if not e1 <= 1e-7 * cq else 'zeroth'), {'n': n, 'D': D, 'P': P, 'AQ-QL': e1, 'zeroth': z, 'cond_Q0': cq}); return
    ctx.ok('eig', ('eig', n, D, P, kind), noise=e1 / cq)


def _svd(ctx, p, rng):
    D, P, M, N = p['D'], p['P'], p['M'], p['N']
    K = min(M, N)
    cls = 'square' if M == N else ('tall' if M > N else 'wide')

    def base():
        U, _ = np.linalg.qr(rng.normal(size=(M, M))); V, _ = np.linalg.qr(rng.normal(size=(N, N)))
        s = np.sort(0.4 + np.cumsum(rng.uniform(0.3, 1.0, size=K)))[::-1]
        S = np.zeros((M, N)); S[:K, :K] = np.diag(s)
        return U @ S @ V.T
    a = _series(rng, D, P, M, N, base, scale=0.4)
    mech = 'svd:' + cls
    try:
        if _SCALE:
            mech += ':scale1e%+d' % int(round(np.log10(_SCALE)))
            U, s, V = UTPM.svd(UTPM(a.copy()), epsilon=1e-8 * _SCALE) if _SCALE < 1 else UTPM.svd(UTPM(a.copy()))
            s = UTPM(s.data / _SCALE); a = a / _SCALE
        else:
            U, s, V = algopy.svd(UTPM(gen.relayout(a, gen.LAYOUTS[int(rng.integers(5))])))
    except Exception as e:
        ctx.violation(mech + ':raises:' + type(e).__name__, {'M': M, 'N': N, 'D': D, 'P': P, 'error': repr(e)[:300]}); return
    if U.data.shape != (D, P, M, M) or s.data.shape != (D, P, K) or V.data.shape != (D, P, N, N):
        ctx.violation(mech + ':shape', {'U': U.data.shape, 's': s.data.shape, 'V': V.data.shape}); return
    u, v = U.data, V.data
    S = np.zeros((D, P, M, N))
    for d in range(D):
        for pp in range(P):
            S[d, pp, :K, :K] = np.diag(s.data[d, pp])
    US, M1 = lin.cdot(u, S)
    USV, M2 = lin.cdot(US.astype(float), lin.T(v))
    e1 = lin.res_norm(USV - a, M2 + np.abs(a))
    e2 = max(_res(lin.cdot(lin.T(u), u), lin.eye(D, P, M)), _res(lin.cdot(lin.T(v), v), lin.eye(D, P, N)))
    desc = all(np.all(np.diff(s.data[0, pp]) <= 1e-12) and np.all(s.data[0, pp] >= 0) for pp in range(P))
    z = max(float(np.max(np.abs(s.data[0, pp] - np.linalg.svd(a[0, pp], compute_uv=False)))) for pp in range(P))
    bad = [nm for nm, vv, t in (('USVt=A', e1, 1e-7), ('orthogonal', e2, 1e-7), ('descending-nonnegative', 0.0 if desc else 1.0, .5), ('zeroth-singular-values', z, 1e-10)) if not vv <= t]
    if bad:
        ctx.violation(mech + ':' + bad[0], {'M': M, 'N': N, 'D': D, 'P': P, 'USVt-A': e1, 'orth': e2, 'zeroth': z}); return
    ctx.ok(mech, ('svd', M, N, D, P), noise=max(e1, e2))
