"""C15 - exact-interpolation coefficients reconstruct mixed partial derivatives.
Monitor: postcondition on generate_Gamma_and_rays / generate_multi_indices (identity evaluated exactly in
integers from the returned floats), trace checker on increment, exact references for the helpers."""
import itertools, math
from fractions import Fraction
import numpy as np
import algopy
import algopy.exact_interpolation as EI
from ..core import case_seed

PID = 'C15'
TAU = Fraction(1, 10 ** 10)
RULE = ('exhaustive enumeration of (N,d) with N<=Nmax, d<=dmax and C(N+d-1,d)<=bound, plus high degrees d in 11..18 for N<=2 (tolerance growing with d) and many variables N in 9..33 at d<=3; every request preceded by a failing (raising) call that is caught; for each pair every (i,alpha) '
        'identity sum_j Gamma[i,j]*ray_j^alpha = delta(i,alpha) is evaluated in exact integer arithmetic from the returned '
        'floats (tolerance 1e-10 * sum_j |Gamma[i,j]| ray_j^alpha); the multi-index list is compared with an independent '
        'itertools enumeration; increment() traces and binomial/factorial/pow/pos helpers against exact references; '
        'a class = (kind, N, d); non-trivial = N>=2 and d>=2 for Gamma identities')
ASSUMPTIONS = ['Python integer / Fraction arithmetic is exact']
BOUNDS = {'quick': (6, 7, 60), 'thorough': (8, 10, 220)}
EXHAUSTIVE = {'quick': True, 'thorough': True}


HIGH = {'quick': [(1, 11), (2, 11), (1, 13), (2, 13), (1, 16), (2, 16), (9, 2), (10, 2), (12, 1), (17, 1), (64, 1), (70, 1)],          # 64: NumPy's limit of array dimensions
        'thorough': [(N, d) for N in (1, 2) for d in range(11, 19)] + [(3, 11), (3, 12), (9, 2), (10, 2), (12, 2), (17, 2), (9, 3), (33, 1), (64, 1), (65, 1), (130, 1)]}


def pairs(tier):
    Nmax, dmax, bound = BOUNDS[tier]
    return [(N, d) for N in range(1, Nmax + 1) for d in range(1, dmax + 1) if math.comb(N + d - 1, d) <= bound] + HIGH[tier]


def tol(d):
    """the level the pinned tree reaches: the alternating sums behind gamma(i,j) lose about half a digit per degree beyond 10
    (measured: 4e-11 at d=11, 4e-10 at 13, 9e-9 at 16, 1e-7 at 18).  Errors between TAU and this level are reported as the known
    finding F-C15-high-degree-accuracy, errors above it as violations"""
    return TAU if d <= 10 else Fraction(3, 10 ** 10) * Fraction(10) ** ((d - 10 + 1) // 2)


def cases(tier, seed):
    out = []
    for (N, d) in pairs(tier):
        out.append({'kind': 'gamma', 'seed': case_seed('C15', seed, 'gamma', N, d), 'params': {'N': N, 'd': d}})
        out.append({'kind': 'helpers', 'seed': case_seed('C15', seed, N, d), 'params': {'N': N, 'd': d}})
    # the cost of one pair grows like C(N+d-1,d)^2 x prod(i_n+1): deal the expensive pairs out first so that the shards
    # (cases[shard::nshards]) are balanced
    out.sort(key=lambda c: -(math.comb(c['params']['N'] + c['params']['d'] - 1, c['params']['d']) ** 2) * (2 if c['kind'] == 'gamma' else 1))
    return out


REQUIRED = ['gamma_identity', 'multi_indices', 'rays', 'increment', 'binomial', 'factorial', 'pos', 'pow']
MIN_CASES_PER_SHARD = 2


def compositions(N, d):
    """all multi-indices of N non-negative integers with sum d (stars and bars: cost proportional to their number, also for N = 130)"""
    if N == 1:
        return [(d,)]
    out = []
    for first in range(d + 1):
        out += [(first,) + rest for rest in compositions(N - 1, d - first)]
    return out


def run_case(ctx, case):
    N, d = case['params']['N'], case['params']['d']
    if case['kind'] == 'gamma':
        return _gamma(ctx, N, d)
    return _helpers(ctx, N, d, np.random.default_rng(case['seed']))


def _gamma(ctx, N, d):
    J = EI.generate_multi_indices(N, d)
    want = sorted(compositions(N, d))
    got = [tuple(int(v) for v in row) for row in np.asarray(J)]
    if sorted(got) != want or len(set(got)) != len(got) or np.asarray(J).shape != (len(want), N):
        ctx.violation('multi_indices:enumeration', {'N': N, 'd': d, 'got_len': len(got), 'want_len': len(want),
                                                    'missing': [w for w in want if w not in got][:3],
                                                    'duplicates': len(got) - len(set(got))})
        return
    ctx.ok('multi_indices', ('mi', N, d))
    # a failed call in between (mismatched arguments, an interrupt) must leave nothing behind: provoke and catch one
    try:
        EI.gamma([d] + [0] * (N - 1), ([d] + [0] * (N - 1))[:max(0, N - 1)])          # i with N entries, j one short: raises inside the summation
    except Exception:
        pass
    try:
        EI.multi_index_binomial(np.ones(N + 1), np.ones(max(1, N - 1)))
    except Exception:
        pass
    # N and d in the spellings a caller has at hand: Python ints, elements of integer arrays of any width
    sp = [int, np.int64, np.int32, np.int16, np.int8, np.uint8][(N * 7 + d * 3) % 6]
    Ns, ds = (sp(N), sp(d)) if (N < 100 and d < 100) else (N, d)
    try:
        g1, r1 = EI.generate_Gamma_and_rays(Ns, ds)
    except Exception as e:
        ctx.violation('gamma_identity:raises', {'N': N, 'd': d, 'spelling': getattr(sp, '__name__', str(sp)), 'error': repr(e)[:200]}); return
    first = (np.array(g1, copy=True), np.array(r1, copy=True))
    if isinstance(g1, np.ndarray) and isinstance(r1, np.ndarray) and g1.flags.writeable and r1.flags.writeable:
        g1 *= 3.0; r1 += 1.0            # what a caller may do with its own result; must not influence the next request
    try:
        Gamma, rays = EI.generate_Gamma_and_rays(N, d)
    except Exception as e:
        ctx.violation('gamma_identity:raises', {'N': N, 'd': d, 'request': 'repeat', 'error': repr(e)[:200]}); return
    Gamma = np.asarray(Gamma); rays = np.asarray(rays)
    NJ = len(want)
    # the request right after the failed calls and the repeated one are both answers the property speaks about
    if _identity(ctx, N, d, J, want, got, first[0], first[1], 'first-after-failed-calls'):
        _identity(ctx, N, d, J, want, got, Gamma, rays, 'repeat-after-caller-mutation')


def _identity(ctx, N, d, J, want, got, Gamma, rays, which):
    NJ = len(want)
    if Gamma.shape != (NJ, NJ) or rays.shape != (NJ, N) or not np.array_equal(rays, np.asarray(J, dtype=float)):
        ctx.violation('rays:shape-or-values', {'N': N, 'd': d, 'request': which, 'Gamma_shape': Gamma.shape, 'rays_shape': rays.shape})
        return False
    ctx.ok('rays', ('rays', N, d, which))
    if not np.all(np.isfinite(Gamma)):
        ctx.violation('gamma_identity:nonfinite', {'N': N, 'd': d, 'request': which}); return False
    # exact evaluation: floats are dyadic rationals -> scale to integers
    fr = [[Fraction(float(v)) for v in row] for row in Gamma]
    den = 1
    for row in fr:
        for f in row:
            if f.denominator > den:
                den = f.denominator
    G = np.array([[int(f * den) for f in row] for row in fr], dtype=object)          # integers, Gamma = G/den
    R = [[int(v) for v in row] for row in rays.tolist()]
    V = np.array([[math.prod(R[j][n] ** got[a][n] for n in range(N)) for a in range(NJ)] for j in range(NJ)], dtype=object)
    S = G.dot(V)                    # S[i,a] * 1/den = sum_j Gamma[i,j] ray_j^alpha_a
    Sabs = np.abs(G).dot(V)
    worst = Fraction(0)
    lost = False
    for i in range(NJ):
        for a in range(NJ):
            delta = den if i == a else 0
            err = abs(int(S[i, a]) - delta)
            scale = max(int(Sabs[i, a]), den)
            if Fraction(err) > tol(d) * scale:
                ctx.violation('gamma_identity:%s' % ('diag' if i == a else 'offdiag'),
                              {'N': N, 'd': d, 'request': which, 'i': got[i], 'alpha': got[a], 'sum': float(Fraction(int(S[i, a]), den)),
                               'want': 1.0 if i == a else 0.0})
                return False
            q = Fraction(err, scale)
            if q > worst:
                worst = q
            if q > TAU and not lost:
                # within the (degree-dependent) level the pinned tree reaches, but beyond rounding: reported once per request as the
                # known loss of accuracy at high degree (gamma() sums an alternating series in floating point)
                lost = True
                ctx.violation('gamma_identity:accuracy-lost-at-high-degree', {'N': N, 'd': d, 'request': which, 'i': got[i], 'alpha': got[a],
                                                                              'err_over_scale': float(q), 'level_of_the_pinned_tree': float(tol(d))})
    ctx.evaluations += NJ * NJ - 1
    ctx.ok('gamma_identity', ('gamma', N, d, which), noise=float(worst),
           sample={'N': N, 'd': d, 'multi_indices': NJ, 'identities_checked': NJ * NJ, 'max_err_over_scale': float(worst)})
    return True


def _helpers(ctx, N, d, rng):
    J = [np.array(c, dtype=int) for c in compositions(N, d)]
    # increment(): from k=0 repeated increments visit every 0<=k<=i once in lexicographic order, ending at k=i
    for i in J[:: max(1, len(J) // 12)]:
        want = [k for k in itertools.product(*[range(v + 1) for v in i])]
        k = np.zeros(N, dtype=int)
        seen = [tuple(int(v) for v in k)]
        steps = 0
        while not (k == i).all() and steps <= len(want) + 2:
            r = EI.increment(i, k)
            steps += 1
            seen.append(tuple(int(v) for v in k))
            if r is not k and not np.array_equal(r, k):
                ctx.violation('increment:return', {'i': i.tolist()}); return
        if seen != want:
            ctx.violation('increment:trace', {'i': i.tolist(), 'visited': len(seen), 'expected': len(want),
                                              'first_diff': next((n for n, (a, b) in enumerate(zip(seen, want)) if a != b), None)})
            return
        ctx.ok('increment', ('inc', N, d))
    # binomial / factorial / pow
    for _ in range(6):
        i = J[int(rng.integers(len(J)))]; j = J[int(rng.integers(len(J)))]
        jj = np.minimum(i, j)
        ref = math.prod(math.comb(int(a), int(b)) for a, b in zip(i, jj))
        got = EI.multi_index_binomial(i, jj)
        if not abs(got - ref) <= 1e-12 * max(1, ref):
            ctx.violation('binomial:int', {'i': i.tolist(), 'j': jj.tolist(), 'got': float(got), 'want': ref}); return
        # generalised binomial with real upper argument, as used by gamma()
        z = d * jj / max(1, int(jj.sum()))
        ref2 = Fraction(1)
        for zz, b in zip(z, j):
            for kq in range(int(b)):
                ref2 *= Fraction(float(zz) - kq) / (int(b) - kq)
        got2 = EI.multi_index_binomial(z, j)
        if not np.isfinite(got2) or abs(Fraction(float(got2)) - ref2) > Fraction(1, 10 ** 11) * max(1, abs(ref2)):
            ctx.violation('binomial:real', {'i': z.tolist(), 'j': j.tolist(), 'got': float(got2), 'want': float(ref2)}); return
        ctx.ok('binomial', ('binom', N, d))
        ref = math.prod(math.factorial(int(v)) for v in i)
        if EI.multi_index_factorial(i) != ref:
            ctx.violation('factorial:value', {'i': i.tolist(), 'got': float(EI.multi_index_factorial(i)), 'want': ref}); return
        ctx.ok('factorial', ('fact', N, d))
        x = rng.integers(-3, 4, size=N).astype(float)
        ref = math.prod(int(x[n]) ** int(i[n]) for n in range(N))
        if EI.multi_index_pow(x, i) != ref:
            ctx.violation('pow:value', {'x': x.tolist(), 'i': i.tolist(), 'got': float(EI.multi_index_pow(x, i)), 'want': ref}); return
        ctx.ok('pow', ('pow', N, d))
    MI = EI.generate_multi_indices(N, d)
    pos = EI.convert_multi_indices_to_pos(MI)
    for row, ps in zip(np.asarray(MI), np.asarray(pos)):
        cnt = np.bincount(ps, minlength=N)
        if list(cnt) != list(row) or list(ps) != sorted(ps):
            ctx.violation('pos:value', {'mi': row.tolist(), 'pos': ps.tolist()}); return
    ctx.ok('pos', ('pos', N, d))


def finish(ctx):
    from .. import core
    ctx.extra['pairs_N_d'] = ['%d,%d' % p for p in pairs(ctx.tier)]
    return core.finish(ctx, REQUIRED, RULE, assumptions=ASSUMPTIONS, exhaustive=True)
