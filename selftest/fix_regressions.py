#!/venv/bin/python
"""fix_regressions.py - for every `fix:` commit in /repo: undo it on a scratch worktree and confirm that the check of the
property it was recorded for reports the violation again (a fixed entry in known_findings.json suppresses nothing)."""
import os, sys, json, subprocess, tempfile, re
HERE = os.path.dirname(os.path.abspath(__file__)); VERIF = os.path.dirname(HERE)
EXPECT = {  # subject prefix -> checks expected to fire when the fix is undone
    'refuse a constant array that does not broadcast into x': ['C02'], 'reverse sweep through sum over a tuple of axes': ['C03', 'C04'], 'init_tensor keeps the type of the point': ['C09'],
    'constant / UTPM builds': ['C02'], 'x ** r allocates': ['C02'], 'UTPM /= UTPM broadcasts': ['C02'], 'nthderiv.erf/erfi': ['C16'],
    'NumPy integer exponents': ['C01'], 'UTPM.outer allocates': ['C07'], 'UTPM.__setitem__ accepts': ['C13'], 'sum() of a scalar-shaped': ['C13'],
    'zeros(shape, dtype=UTPM)': ['C13'], 'diag follows numpy.diag': ['C13'], 'pullback of x ** n for negative': ['C03'],
    'replaying a graph passes the keyword': ['C05'], 'sum(axis=...) of a traced': ['C03'], 'pullback of reshape': ['C03'],
    'pullback of outer': ['C03'], 'pullback of dot(matrix, vector)': ['C03'], 'pullback of tile': ['C03'], 'pullback of constant * UTPM': ['C03'],
    're-evaluating a traced in-place write': ['C03', 'C04'], 'a reverse sweep re-applies': ['C06'], 'pullback of ifft': ['C03'],
    'eigenvector pullback of eigh': ['C03'], 'pullback of tan no longer': ['C06', 'C14'], 'x *= y when y is x': ['C14'], 'resets the eigenvector buffer': ['C08'], 'promote every integer seed': ['C09'], 'CGraph.gradient evaluates integer': ['C04'], 'UTPM.vecsym allocates': ['C17'], 'minimum/maximum of traced values': ['C10'], 'pullback of prod accumulates': ['C03'], 'expit of large arguments': ['C01'], 'constant array c is a view of x': ['C14'], 'constant b of mixed real/complex dtype': ['C07'], 'zero-dimensional integer array as exponent': ['C01'], 'forwards the rank threshold': ['C08'], 'in-place write with a constant array': ['C03'], 'pullback of symvec with UPLO': ['C03'], 'right hand side is broadcast': ['C03', 'C04'], 'promotes a NumPy scalar base': ['C02'], 'integer-typed matrices compute in floating point': ['C07'], 'keep the imaginary part of complex adjoints': ['C03'], 'imag() of a traced complex value': ['C03'], 'accepts a complex y for a real x': ['C03'], 'integer-typed points are computed in floating point': ['C16'], 'allocate their result with the length n': ['C13'], 'a view of x': ['C13'], 'x ** 2.0 is the polynomial': ['C02'], 'conversion helpers keep complex': ['C17'], 'zeros and ones accept a dtype given as a string': ['C10'], 'select instead of blending': ['C10'], 'extract_jac_vec for scalar': ['C09'], 'overlaps the target or has leading unit axes': ['C03'], 'share adjoint memory are accumulated': ['C03'], 'pullbacks of trace of a non-square matrix': ['C03'], 'recorded with Python lists': ['C04'], 'outer and the LU based functions accept': ['C07'], 'extract_tensor contracts the direction axis': ['C09'], 'shift(s, out=buffer) clears': ['C17'], 'b ** z and x ** z with a complex polynomial': ['C02'], 'minimum and maximum promote mixed operand types': ['C10'], 'derivative terms of the special functions': ['C12'], 'ndarray2utpm keeps complex elements': ['C17'], 'nthderiv accepts a NumPy integer order': ['C16'], 'zeros, ones and reshape accept the shape': ['C13', 'C10'],
    'absolute value of complex Taylor polynomials': ['C01', 'C03'],
    'reshape converts the shape before': ['C13'],
    'shift(0) is the identity': ['C17'],
    'absolute of a complex polynomial does not overflow': ['C01'],
    'pullback of outer with a constant operand': ['C03', 'C04'],
    'pullbacks of fft and ifft with n different from': ['C03', 'C04'],
    'vec_hess_vec accepts multipliers of length M': ['C04'],
    'gradient evaluates the graph on a copy of the point': ['C14'],
    'pullback of solve with a constant matrix or a complex constant': ['C03', 'C04'],
    'abs() of a traced value': ['C03', 'C05'],
    'ndarray2utpm for containers with several axes': ['C17'],
    'item assignment rejects a right hand side that does not fit': ['C13'],
    'extract_tensor returns the full derivative tensor for every order': ['C09'],
    'init_jac_vec at a scalar point': ['C09'],
    'logdet of a matrix with negative determinant': ['C07'],
    'x ** r with an array r of more axes than x': ['C11'],
    'quotient and power of polynomials of different precision': ['C02'],
    'a polynomial constant on the left of a traced value': ['C05', 'C03'],
    'the generic dispatchers let a traced argument decide': ['C05'],
    'minimum and maximum with a constant or a broadcastable operand': ['C01'],
    'comparisons of polynomials whose values have different ranks': ['C10'],
    'sign of a complex polynomial': ['C01'],
    'x *= y with one direction in y and several in x': ['C02', 'C14'],
    'sum over a tuple of axes': ['C13'],
    'JTtoF keeps complex coefficients': ['C17'],
    'combine_blocks accepts the list of lists': ['C17'],
    'value of x ** y for a negative base': ['C10'],
}


def sh(cmd, **kw):
    return subprocess.run(cmd, stdout=subprocess.PIPE, stderr=subprocess.STDOUT, text=True, **kw)


def main():
    log = sh(['git', '-C', '/repo', 'log', '--format=%h %s', '--reverse']).stdout.splitlines()
    out = []
    for line in log:
        h, subj = line.split(' ', 1)
        if not subj.startswith('fix:'):
            continue
        checks = next((v for k, v in EXPECT.items() if k in subj), None)
        if checks is None:
            out.append({'commit': h, 'subject': subj, 'result': 'no expectation listed'}); print(out[-1]); continue
        with tempfile.NamedTemporaryFile('w', suffix='.diff', delete=False) as tf:
            tf.write(sh(['git', '-C', '/repo', 'diff', h + '~1', h]).stdout)
        r = sh(['/venv/bin/python', os.path.join(HERE, 'run_mutant.py'), tf.name] + checks + ['--reverse'])
        os.unlink(tf.name)
        try:
            res = json.loads(r.stdout[r.stdout.index('{'):])
            fired = {c: v['exit'] for c, v in res['checks'].items()}
        except Exception:
            fired = {'error': r.stdout[-200:]}
        if 'patch does not apply' in str(fired.get('error', '')):
            # a later fix rewrote the same lines: this one cannot be undone in isolation any more (the later fix's own entry covers the site)
            out.append({'commit': h, 'subject': subj[:70], 'result': 'cannot be undone in isolation: a later fix: commit touches the same lines'})
            print(json.dumps(out[-1]), flush=True)
            continue
        out.append({'commit': h, 'subject': subj[:70], 'checks_exit_when_fix_is_undone': fired, 'fires_again': any(v == 1 for v in fired.values() if isinstance(v, int))})
        print(json.dumps(out[-1]), flush=True)
    json.dump(out, open(os.path.join(HERE, 'fix_regressions.json'), 'w'), indent=1)
    return 0 if all(o.get('fires_again') for o in out if 'fires_again' in o) else 1


if __name__ == '__main__':
    sys.exit(main())
