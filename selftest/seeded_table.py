#!/venv/bin/python
"""seeded_table.py - regenerate the table of seeded changes in DESIGN.md (between the SEEDED-TABLE markers) from seeded/*/meta.json"""
import os, json, glob, re
VERIF = os.path.dirname(os.path.dirname(os.path.abspath(__file__)))


def cell(s, n):
    s = (s or '').replace('|', '/').replace('\n', ' ')
    return s if len(s) <= n else s[:n - 3] + '...'


rows = ['| id | change (file / mechanism) | needs to manifest | caught by (quick tier) |', '|---|---|---|---|']
for f in sorted(glob.glob(os.path.join(VERIF, 'seeded', 'C*', 'meta.json'))):
    m = json.load(open(f))
    rows.append('| %s | %s | %s | %s |' % (m['id'], cell(m.get('summary'), 200), cell(m.get('needs_to_manifest'), 140), ', '.join(m.get('caught_by') or []) or '**none**'))
p = os.path.join(VERIF, 'DESIGN.md')
s = open(p).read()
a, b = '<!-- SEEDED-TABLE-BEGIN -->', '<!-- SEEDED-TABLE-END -->'
s = s[:s.index(a) + len(a)] + '\n' + '\n'.join(rows) + '\n' + s[s.index(b):]
open(p, 'w').write(s)
print(len(rows) - 2, 'rows')
