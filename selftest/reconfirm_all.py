#!/venv/bin/python
"""reconfirm_all.py [id ...]  - re-run every filed seeded change (seeded/<id>/{patch.diff,demo.py,meta.json}) against the
current /repo HEAD and the current checks: scratch worktree (outside /repo and /verif), demo on the unchanged tree, plain
`git apply`, repository tests, demo with the change, quick tier of the property's own check plus the additional checks
named in confirm_seeded.EXTRA.  Rewrites meta.json['what_was_run'] / ['caught_by'] and seeded/reconfirm_log.json."""
import os, sys, json, subprocess, tempfile, shutil
from concurrent.futures import ThreadPoolExecutor

HERE = os.path.dirname(os.path.abspath(__file__))
VERIF = os.path.dirname(HERE)
sys.path.insert(0, HERE)
from confirm_seeded import EXTRA, sh


def one(sid):
    src = os.path.join(VERIF, 'seeded', sid)
    patch = os.path.join(src, 'patch.diff'); demo = os.path.join(src, 'demo.py')
    meta = json.load(open(os.path.join(src, 'meta.json')))
    pid = meta['breaks_property']
    wt = tempfile.mkdtemp(prefix='algopy_seed_'); os.rmdir(wt)
    sh(['git', '-C', '/repo', 'worktree', 'add', '--detach', '-q', wt, 'HEAD'])
    res = {'id': sid}
    try:
        env = dict(os.environ, ALGOPY_REPO=wt, PYTHONDONTWRITEBYTECODE='1', VERIF_NO_EVIDENCE='1', VERIF_JOBS='8',
                   VERIF_SCRATCH_TAG=sid)
        res['demo_unchanged'] = sh(['/venv/bin/python', demo], cwd=wt, env=env).returncode
        r = sh(['git', '-C', wt, 'apply', patch])
        res['applies'] = r.returncode == 0
        if not res['applies']:
            res['apply_error'] = r.stdout[-300:]
            return res
        t = sh(['/venv/bin/python', '-m', 'pytest', '-q', '-p', 'no:cacheprovider', 'algopy'], cwd=wt, env=env)
        res['repo_tests'] = ([l for l in t.stdout.splitlines() if ' passed' in l or ' failed' in l] or [''])[-1].strip()
        res['repo_tests_exit'] = t.returncode
        res['demo_changed'] = sh(['/venv/bin/python', demo], cwd=wt, env=env).returncode
        res['checks'] = {}
        for c in [pid] + EXTRA.get(sid, []):
            k = sh(['/venv/bin/python', os.path.join(VERIF, 'vcheck.py'), c, '--tier', 'quick'], cwd=VERIF, env=env)
            lines = [l for l in k.stdout.splitlines() if l.startswith('VIOLATION')]
            res['checks'][c] = {'exit': k.returncode, 'violating_mechanisms': [l.split('# ')[1].split(': {')[0] for l in lines if '# ' in l][:6]}
        res['caught_by'] = [c for c, v in res['checks'].items() if v['exit'] == 1]
        res['confirmed'] = res['demo_unchanged'] == 0 and res['repo_tests_exit'] == 0 and res['demo_changed'] != 0
    finally:
        sh(['git', '-C', '/repo', 'worktree', 'remove', '--force', wt]); shutil.rmtree(wt, ignore_errors=True)
        shutil.rmtree(os.path.join(tempfile.gettempdir(), 'verif_scratch_%d%s' % (os.getuid(), sid)), ignore_errors=True)
    if res.get('confirmed'):
        meta['what_was_run'] = {'repository_tests_with_change': res['repo_tests'], 'demo_exit_unchanged_tree': res['demo_unchanged'],
                                'demo_exit_with_change': res['demo_changed'], 'checks_quick_tier': res['checks']}
        meta['caught_by'] = res['caught_by']
        json.dump(meta, open(os.path.join(src, 'meta.json'), 'w'), indent=1)
    return res


def main():
    ids = sys.argv[1:] or sorted(d for d in os.listdir(os.path.join(VERIF, 'seeded')) if d[0] == 'C' and os.path.isdir(os.path.join(VERIF, 'seeded', d)))
    out = []
    with ThreadPoolExecutor(max_workers=3) as ex:
        for r in ex.map(one, ids):
            out.append(r)
            print(json.dumps({k: r.get(k) for k in ('id', 'applies', 'confirmed', 'caught_by')}), flush=True)
    sh(['git', '-C', '/repo', 'worktree', 'prune'])
    logp = os.path.join(VERIF, 'seeded', 'reconfirm_log.json')
    if sys.argv[1:] and os.path.exists(logp):          # a partial run updates the entries of the full log
        merged = {r['id']: r for r in json.load(open(logp))}
        merged.update({r['id']: r for r in out})
        json.dump([merged[k] for k in sorted(merged)], open(logp, 'w'), indent=1)
    else:
        json.dump(out, open(logp, 'w'), indent=1)
    bad = [r['id'] for r in out if not r.get('confirmed') or not r.get('caught_by')]
    print('not confirmed or not caught:', bad)
    return 1 if bad else 0


if __name__ == '__main__':
    sys.exit(main())
