#!/venv/bin/python
"""confirm_seeded.py [Cxx ...]   - confirm the sub-agent mutants in seeded/_incoming and file them under seeded/<id>/

For each mutant: scratch worktree of /repo HEAD (outside /repo and /verif); demo passes on pristine; patch applies;
repository tests pass; demo fails; the listed checks are run against the mutant (quick tier).  Writes
seeded/<Cxx>-<A|B>/{patch.diff, demo.py, meta.json}."""
import os, sys, json, subprocess, tempfile, shutil

HERE = os.path.dirname(os.path.abspath(__file__))
VERIF = os.path.dirname(HERE)
INC = os.path.join(VERIF, 'seeded', '_incoming')
# checks to run against a mutant in addition to the property it was written for
EXTRA = {'C01-W': ['C16'], 'C01-X': ['C10'], 'C02-W': ['C10'], 'C02-X': ['C10'], 'C03-W': ['C04'], 'C03-X': ['C04', 'C13'], 'C04-W': ['C03', 'C13'], 'C05-W': ['C10'], 'C05-X': ['C06'], 'C07-X': ['C10'], 'C08-W': ['C14'], 'C08-X': ['C10'], 'C09-W': ['C15'], 'C09-X': ['C15'], 'C10-W': ['C05'], 'C10-X': ['C13'], 'C11-W': ['C03'], 'C13-W': ['C14', 'C03'], 'C13-X': ['C17'], 'C14-W': ['C02'], 'C14-X': ['C04', 'C06'], 'C15-X': ['C09'], 'C17-W': ['C13'], 'C17-X': ['C14'], 'C06-W': ['C05'], 'C06-X': ['C05'],
         'C02-U': ['C01'], 'C03-U': ['C04'], 'C03-V': ['C04'], 'C04-U': ['C03'], 'C04-V': ['C03'], 'C06-U': ['C03'], 'C07-U': ['C14'], 'C10-V': ['C13'], 'C11-U': ['C04'], 'C11-V': ['C08'], 'C13-V': ['C10'], 'C14-V': ['C02', 'C01'], 'C16-V': ['C01'], 'C17-U': ['C14'], 'C05-V': ['C02'], 'C12-U': ['C02'], 'C12-V': ['C07'],
         'C01-S': ['C12', 'C02'], 'C01-T': ['C02'], 'C02-S': ['C10'], 'C03-S': ['C04'], 'C04-S': ['C05'], 'C04-T': ['C03'], 'C05-S': ['C06'], 'C05-T': ['C02'], 'C06-S': ['C14', 'C07'], 'C06-T': ['C05'], 'C10-S': ['C02'], 'C10-T': ['C01'], 'C11-S': ['C03'], 'C11-T': ['C04'], 'C12-S': ['C10'], 'C12-T': ['C02'], 'C13-S': ['C17'], 'C13-T': ['C07', 'C10'], 'C14-S': ['C07'], 'C14-T': ['C02'], 'C01-Q': ['C11'], 'C01-R': ['C16'], 'C02-Q': ['C10'], 'C02-R': ['C10'], 'C03-Q': ['C04', 'C06'], 'C03-R': ['C04'], 'C04-Q': ['C03', 'C13'], 'C04-R': ['C03', 'C13'], 'C05-Q': ['C13'], 'C05-R': ['C06'], 'C06-Q': ['C14'], 'C06-R': ['C05'], 'C07-Q': ['C10'], 'C07-R': ['C13', 'C10'], 'C08-R': ['C11'], 'C09-Q': ['C14', 'C02'], 'C09-R': ['C02', 'C11'], 'C10-Q': ['C13'], 'C10-R': ['C13'], 'C11-Q': ['C04'], 'C11-R': ['C02', 'C14'], 'C12-Q': ['C10'], 'C12-R': ['C17'], 'C13-Q': ['C10'], 'C13-R': ['C10'], 'C14-Q': ['C03'], 'C15-R': ['C09'], 'C17-Q': ['C12'], 'C17-R': ['C13'], 'C03-P': ['C04'], 'C01-O': ['C14'], 'C01-P': ['C10'], 'C02-P': ['C10'], 'C04-O': ['C06'], 'C06-O': ['C05'], 'C06-P': ['C04'], 'C07-O': ['C14', 'C06'], 'C07-P': ['C12'], 'C10-O': ['C13'], 'C11-O': ['C01'], 'C11-P': ['C08'], 'C12-O': ['C03'], 'C12-P': ['C07'], 'C13-O': ['C14'], 'C13-P': ['C17'], 'C14-O': ['C01'], 'C14-P': ['C03'], 'C03-F': ['C01'], 'C04-M': ['C03', 'C05', 'C06'], 'C04-N': ['C03'], 'C06-N': ['C03', 'C14'], 'C06-M': ['C04'], 'C09-M': ['C14', 'C02'], 'C09-N': ['C07'], 'C07-N': ['C14'], 'C11-M': ['C03'], 'C11-N': ['C01'], 'C13-M': ['C02'], 'C13-N': ['C10'], 'C14-M': ['C02'], 'C02-M': ['C14'], 'C05-N': ['C09'], 'C17-N': ['C13'], 'C08-N': ['C11'], 'C01-N': ['C10'], 'C03-M': ['C04'], 'C03-N': ['C04'], 'C10-M': ['C02', 'C13'], 'C10-N': ['C13'], 'C12-M': ['C11'], 'C12-N': ['C11'], 'C05-L': ['C10'], 'C08-L': ['C11'], 'C14-L': ['C02'], 'C10-L': ['C13'], 'C02-K': ['C10'], 'C10-K': ['C02'], 'C06-K': ['C04'], 'C04-L': ['C06'], 'C04-K': ['C06'], 'C09-L': ['C14'], 'C10-L': ['C13', 'C14'], 'C13-K': ['C10'], 'C03-L': ['C01'], 'C01-L': ['C12', 'C14'], 'C11-L': ['C07'], 'C07-K': ['C11'], 'C17-K': ['C13'], 'C12-K': ['C11'], 'C12-L': ['C11'], 'C09-I': ['C14', 'C02'], 'C09-J': ['C01', 'C02'], 'C12-J': ['C10'], 'C12-I': ['C03'], 'C11-I': ['C03'], 'C11-J': ['C03'], 'C07-J': ['C03'], 'C14-I': ['C08'], 'C14-J': ['C03'], 'C06-I': ['C05'], 'C06-J': ['C05'], 'C02-I': ['C01'], 'C02-J': ['C01'], 'C01-I': ['C10'], 'C17-J': ['C13'], 'C04-I': ['C03'], 'C04-J': ['C03'], 'C03-J': ['C04'], 'C10-I': ['C01', 'C02'], 'C13-J': ['C10'], 'C05-I': ['C03', 'C04'], 'C15-I': ['C09'], 'C15-J': ['C09'], 'C08-I': ['C11', 'C12'], 'C06-G': ['C14', 'C03'], 'C06-H': ['C03', 'C04'], 'C08-G': ['C11', 'C10'], 'C08-H': ['C12'], 'C09-H': ['C04'], 'C14-G': ['C06'], 'C14-H': ['C07'], 'C17-H': ['C03'], 'C07-G': ['C13'], 'C11-G': ['C13', 'C10'], 'C12-H': ['C13'], 'C12-G': ['C17'], 'C10-G': ['C13'], 'C15-H': ['C09'], 'C05-G': ['C03'], 'C05-H': ['C13'], 'C06-E': ['C05'], 'C06-F': ['C14', 'C07'], 'C07-F': ['C02'], 'C11-E': ['C04'], 'C11-F': ['C08', 'C12'], 'C15-F': ['C09'], 'C13-E': ['C17'], 'C05-F': ['C17', 'C13'],
         'C17-E': ['C05'], 'C17-F': ['C13'], 'C10-E': ['C13'], 'C01-F': ['C03', 'C02'], 'C04-E': ['C03'], 'C09-E': ['C15'], 'C12-E': ['C02'], 'C12-F': ['C02'], 'C08-E': ['C12'],
         'C02-E': ['C12'], 'C14-E': ['C02'], 'C14-F': ['C08'],
         'C02-D': ['C14'], 'C04-C': ['C03'], 'C04-D': ['C03', 'C06'], 'C06-C': ['C14'], 'C06-D': ['C03'], 'C09-D': ['C14'], 'C10-D': ['C07'], 'C11-D': ['C02', 'C14'],
         'C13-C': ['C14'], 'C14-C': ['C07'], 'C14-D': ['C06'], 'C16-D': ['C14'], 'C05-C': ['C06'], 'C03-C': ['C13'], 'C07-C': ['C14'], 'C15-C': ['C09'], 'C01-D': ['C14'], 'C17-C': ['C09'],
         'C08-B': ['C14'], 'C06-B': ['C14'], 'C04-B': ['C06'], 'C09-A': ['C15'], 'C10-B': ['C13'], 'C13-B': ['C10'], 'C03-A': ['C06', 'C04'],
         'C11-A': ['C03'], 'C02-B': ['C14'], 'C14-A': ['C02'], 'C01-B': ['C02'], 'C05-B': ['C03']}


def sh(cmd, **kw):
    return subprocess.run(cmd, stdout=subprocess.PIPE, stderr=subprocess.STDOUT, text=True, **kw)


def one(pid, tag):
    src = os.path.join(INC, pid)
    patch = os.path.join(src, tag + '.diff')
    demo = os.path.join(src, 'demo_%s.py' % tag)
    meta_in = json.load(open(os.path.join(src, 'meta.json'))).get(tag, {})
    wt = tempfile.mkdtemp(prefix='algopy_seed_'); os.rmdir(wt)
    sh(['git', '-C', '/repo', 'worktree', 'add', '--detach', '-q', wt, 'HEAD'])
    res = {'id': '%s-%s' % (pid, tag), 'property': pid}
    try:
        env = dict(os.environ, ALGOPY_REPO=wt, PYTHONDONTWRITEBYTECODE='1', VERIF_NO_EVIDENCE='1')
        res['demo_on_unchanged_tree_exit'] = sh(['/venv/bin/python', demo], cwd=wt, env=env).returncode
        r = sh(['git', '-C', wt, 'apply', patch])
        if r.returncode:
            r = sh(['git', '-C', wt, 'apply', '--3way', patch])
        res['applies'] = r.returncode == 0
        if not res['applies']:
            res['apply_error'] = r.stdout[-300:]
            return res
        t = sh(['/venv/bin/python', '-m', 'pytest', '-q', '-p', 'no:cacheprovider', 'algopy'], cwd=wt, env=env)
        res['repo_tests'] = ([l for l in t.stdout.splitlines() if ' passed' in l or ' failed' in l] or [''])[-1].strip()
        res['repo_tests_exit'] = t.returncode
        res['demo_with_change_exit'] = sh(['/venv/bin/python', demo], cwd=wt, env=env).returncode
        res['checks'] = {}
        for c in [pid] + EXTRA.get(res['id'], []):
            k = sh(['/venv/bin/python', os.path.join(VERIF, 'vcheck.py'), c, '--tier', 'quick'], cwd=VERIF, env=env)
            lines = [l for l in k.stdout.splitlines() if l.startswith('VIOLATION')]
            res['checks'][c] = {'exit': k.returncode, 'violating_mechanisms': [l.split('# ')[1].split(': {')[0] for l in lines if '# ' in l][:6]}
        res['confirmed'] = (res['demo_on_unchanged_tree_exit'] == 0 and res['repo_tests_exit'] == 0 and res['demo_with_change_exit'] != 0)
        res['caught_by'] = [c for c, v in res['checks'].items() if v['exit'] == 1]
    finally:
        sh(['git', '-C', '/repo', 'worktree', 'remove', '--force', wt]); shutil.rmtree(wt, ignore_errors=True); sh(['git', '-C', '/repo', 'worktree', 'prune'])
    if res.get('confirmed'):
        dst = os.path.join(VERIF, 'seeded', res['id'])
        os.makedirs(dst, exist_ok=True)
        shutil.copy(patch, os.path.join(dst, 'patch.diff')); shutil.copy(demo, os.path.join(dst, 'demo.py'))
        meta = {'id': res['id'], 'breaks_property': pid, 'summary': meta_in.get('summary'), 'file': meta_in.get('file'),
                'needs_to_manifest': meta_in.get('needs_to_manifest'), 'why_repository_tests_pass': meta_in.get('why_tests_pass'),
                'origin': 'fresh sub-agent given only the property text and a scratch worktree',
                'what_was_run': {'repository_tests_with_change': res['repo_tests'], 'demo_exit_unchanged_tree': res['demo_on_unchanged_tree_exit'],
                                 'demo_exit_with_change': res['demo_with_change_exit'],
                                 'checks_quick_tier': res['checks']},
                'caught_by': res['caught_by']}
        json.dump(meta, open(os.path.join(dst, 'meta.json'), 'w'), indent=1)
    return res


def main():
    pids = sys.argv[1:] or sorted(d for d in os.listdir(INC) if d.startswith('C'))
    out = []
    for pid in pids:
        only = None
        if ':' in pid:          # 'C01:W' confirms one change only (one process per change, run in parallel)
            pid, only = pid.split(':')
        for tag in sorted(f[:-5] for f in os.listdir(os.path.join(INC, pid)) if f.endswith('.diff')):
            if only is None or tag == only:
                r = one(pid, tag)
                out.append(r)
                print(json.dumps({k: r.get(k) for k in ('id', 'applies', 'confirmed', 'repo_tests', 'demo_on_unchanged_tree_exit', 'demo_with_change_exit', 'caught_by')}), flush=True)
    if os.environ.get('SEED_LOG'):
        json.dump(out, open(os.environ['SEED_LOG'], 'w'), indent=1)
    else:
        json.dump(out, open(os.path.join(VERIF, 'seeded', 'confirm_log.json'), 'w'), indent=1)


if __name__ == '__main__':
    main()
