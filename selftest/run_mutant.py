#!/venv/bin/python
"""run_mutant.py <patch.diff> <Cxx> [<Cyy> ...] [--tier quick] [--tests] [--demo demo.py]

Applies a property-breaking patch to a scratch worktree of /repo (outside /repo and /verif), optionally confirms that
the repository's own tests still pass and that the demonstration fails with / passes without the patch, runs the
named checks with ALGOPY_REPO pointing at the scratch tree, prints their exit codes and removes the worktree.
exit 0 iff every named check exited 1 (caught)."""
import os, sys, subprocess, tempfile, shutil, argparse, json

HERE = os.path.dirname(os.path.abspath(__file__))
VERIF = os.path.dirname(HERE)


def sh(cmd, **kw):
    return subprocess.run(cmd, stdout=subprocess.PIPE, stderr=subprocess.STDOUT, text=True, **kw)


def main():
    ap = argparse.ArgumentParser()
    ap.add_argument('patch')
    ap.add_argument('pids', nargs='*')
    ap.add_argument('--tier', default='quick')
    ap.add_argument('--tests', action='store_true')
    ap.add_argument('--demo')
    ap.add_argument('--seed', default='0')
    ap.add_argument('--reverse', action='store_true', help='apply the patch in reverse (e.g. undo a fix: commit)')
    a = ap.parse_args()
    wt = tempfile.mkdtemp(prefix='algopy_mut_')
    os.rmdir(wt)
    r = sh(['git', '-C', '/repo', 'worktree', 'add', '--detach', '-q', wt, 'HEAD'])
    if r.returncode:
        print(r.stdout); return 3
    res = {'patch': a.patch}
    try:
        env = dict(os.environ, ALGOPY_REPO=wt, PYTHONDONTWRITEBYTECODE='1', VERIF_SEED=a.seed)
        if a.demo:
            d0 = sh(['/venv/bin/python', os.path.abspath(a.demo)], cwd=wt, env=env)
            res['demo_pristine_exit'] = d0.returncode
        r = sh(['git', '-C', wt, 'apply'] + (['-R'] if a.reverse else []) + [os.path.abspath(a.patch)])
        if r.returncode:
            r = sh(['git', '-C', wt, 'apply', '--3way'] + (['-R'] if a.reverse else []) + [os.path.abspath(a.patch)])
            if r.returncode:
                print('patch does not apply:\n' + r.stdout); return 3
        if a.tests:
            t = sh(['/venv/bin/python', '-m', 'pytest', '-q', '-p', 'no:cacheprovider', 'algopy', '-x', '-q'], cwd=wt, env=env)
            res['tests'] = ([l for l in t.stdout.splitlines() if ' passed' in l or ' failed' in l or ' error' in l] or [''])[-1]
            res['tests_exit'] = t.returncode
        if a.demo:
            d1 = sh(['/venv/bin/python', os.path.abspath(a.demo)], cwd=wt, env=env)
            res['demo_mutant_exit'] = d1.returncode
        caught = True
        res['checks'] = {}
        for pid in a.pids:
            c = sh(['/venv/bin/python', os.path.join(VERIF, 'vcheck.py'), pid, '--tier', a.tier], cwd=VERIF,
                   env=dict(env, VERIF_NO_EVIDENCE='1'))
            lines = [l[:260] for l in c.stdout.splitlines() if l.startswith(('VIOLATION', 'KNOWN', 'INCONCLUSIVE'))]
            res['checks'][pid] = {'exit': c.returncode, 'lines': lines[:4]}
            caught = caught and c.returncode == 1
        print(json.dumps(res, indent=1))
        return 0 if caught else 1
    finally:
        sh(['git', '-C', '/repo', 'worktree', 'remove', '--force', wt])
        shutil.rmtree(wt, ignore_errors=True)
        sh(['git', '-C', '/repo', 'worktree', 'prune'])


if __name__ == '__main__':
    sys.exit(main())
