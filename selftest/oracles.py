#!/venv/bin/python
"""Oracle self-test: the independent oracles are compared with each other (and with closed forms) so that an oracle bug
shows up as an oracle disagreement, not as an alarm against algopy.  No SUT code is involved except importing it first
(mpmath must become importable only after algopy).   exit 0 = all oracles agree."""
import os, sys
sys.path.insert(0, os.path.dirname(os.path.dirname(os.path.abspath(__file__))))
from adsan import boot
boot.load_sut()
import math, itertools
from fractions import Fraction
import numpy as np
import mpmath as mp
from adsan import mporacle as O, qser as Q, lin

rng = np.random.default_rng(12345)
fails = []
n = 0


def check(name, cond, info=''):
    global n
    n += 1
    if not cond:
        fails.append((name, info))


# 1. O-mp composition vs O-Q exact arithmetic on rational functions
for D in (1, 2, 5, 9):
    xs = [float(v) for v in rng.normal(size=D)]; xs[0] = 1.5 + abs(xs[0])
    S = Q.ser(xs)
    for nm, mf, qf in (('x^3', lambda x: x ** 3, lambda s: Q.powi(s, 3)), ('1/x', lambda x: 1 / x, lambda s: Q.div(Q.const(1, D), s)),
                       ('x^-2', lambda x: x ** -2, lambda s: Q.powi(s, -2)), ('(x+1)/(x*x)', lambda x: (x + 1) / (x * x), lambda s: Q.div(Q.add(s, Q.const(1, D)), Q.mul(s, s)))):
        ref, maj = O.series(mf, xs)
        ex = qf(S)
        err = max(abs(O.num(float(e.re)) - r) / (m + mp.mpf(10) ** -200) for e, r, m in zip(ex, ref, maj))
        check('mp-vs-Q:%s:D%d' % (nm, D), err < 1e-14, float(err))

# 2. O-mp composition vs closed forms: exp(x(t)) recurrence in mp, sin^2+cos^2
for D in (3, 7):
    xs = [mp.mpf(float(v)) for v in rng.normal(size=D)]
    e = [mp.exp(xs[0])]
    for d in range(1, D):
        e.append(sum(k * xs[k] * e[d - k] for k in range(1, d + 1)) / d)
    ref, _ = O.series(mp.exp, xs)
    check('mp-exp-recurrence:D%d' % D, max(abs(a - b) for a, b in zip(e, ref)) < mp.mpf(10) ** -40)
    s, _ = O.series(mp.sin, xs); c, _ = O.series(mp.cos, xs)
    one = [a + b for a, b in zip(O.mul(s, s), O.mul(c, c))]
    check('mp-sin2+cos2:D%d' % D, abs(one[0] - 1) < mp.mpf(10) ** -40 and all(abs(v) < mp.mpf(10) ** -40 for v in one[1:]))

# 3. lin.cdot (extended precision convolution) vs exact rational convolution
for _ in range(5):
    D, P = 4, 2
    A = rng.integers(-5, 6, size=(D, P, 3, 2)).astype(float); B = rng.integers(-5, 6, size=(D, P, 2, 3)).astype(float)
    C, M = lin.cdot(A, B)
    ok = True
    for d in range(D):
        for p in range(P):
            ex = sum(A[k, p].astype(int) @ B[d - k, p].astype(int) for k in range(d + 1))
            ok = ok and np.array_equal(np.asarray(C[d, p], dtype=float), ex.astype(float))
    check('cdot-exact', ok)

# 4. exact determinant series (Leibniz in Q) vs numpy on the zeroth coefficient and vs mp determinant at t = 1/8
from adsan.checks.c07 import _exact_det
for nn in (2, 3, 4):
    a = rng.normal(size=(3, nn, nn))
    det, maj = _exact_det(a)
    check('det0:n%d' % nn, abs(float(det[0].re) - np.linalg.det(a[0])) < 1e-10 * float(maj[0].re))
    t = mp.mpf(1) / 64
    At = mp.matrix(nn, nn)
    for i in range(nn):
        for j in range(nn):
            At[i, j] = sum(mp.mpf(float(a[d, i, j])) * t ** d for d in range(3))
    full = mp.det(At)
    approx = sum(mp.mpf(det[d].re.numerator) / mp.mpf(det[d].re.denominator) * t ** d for d in range(3))
    check('det-series-vs-mp:n%d' % nn, abs(full - approx) < 50 * t ** 3 * sum(float(m.re) for m in maj) + mp.mpf(10) ** -20, float(abs(full - approx)))

# 5. mp.diff vs known closed forms (C16's reference)
for x0 in (0.3, 1.7):
    check('mpdiff-sin', abs(mp.diff(mp.sin, x0, 5) - mp.cos(x0)) < mp.mpf(10) ** -30)
    check('mpdiff-log', abs(mp.diff(mp.log, x0, 4) - (-6) / mp.mpf(x0) ** 4) < mp.mpf(10) ** -30)
    check('mpdiff-erf', abs(mp.diff(mp.erf, x0, 2) - (-4 * mp.mpf(x0) / mp.sqrt(mp.pi) * mp.exp(-mp.mpf(x0) ** 2))) < mp.mpf(10) ** -30)

# 6. polynomial program mirror: exact partials vs mp.diff
from adsan import polyprog as PP
for _ in range(5):
    N = 3
    p = PP.random_poly(rng, N, 4, 5)
    x = [Fraction(int(v)) for v in rng.integers(-3, 4, size=N)]
    f = lambda *a: sum(mp.mpf(c.numerator) / c.denominator * math.prod(ai ** ei for ai, ei in zip(a, e)) for e, c in p.t.items())
    alpha = (1, 0, 2)
    ref = mp.diff(f, tuple(mp.mpf(int(v)) for v in x), alpha)
    check('poly-partials', abs(ref - mp.mpf(p.partial(alpha)(x).numerator) / p.partial(alpha)(x).denominator) < mp.mpf(10) ** -20)

print('oracle self-test: %d comparisons, %d disagreements' % (n, len(fails)))
for f in fails:
    print('  DISAGREEMENT', f)
sys.exit(1 if fails else 0)
