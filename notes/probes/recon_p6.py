import sys; sys.path.insert(0,'/repo')
import numpy as np, algopy, itertools
from algopy import UTPM
rng = np.random.default_rng(3)
def U(D,P,*shp): return UTPM(rng.normal(size=(D,P)+tuple(shp)))
def conv(op, xd, yd):
    D,P = (xd.shape[:2] if xd.ndim>=2 else yd.shape[:2])
    outs=[]
    for d in range(D):
        row=[]
        for p in range(P):
            acc=None
            for c in range(d+1):
                t = op(xd[c,p], yd[d-c,p])
                acc = t if acc is None else acc+t
            row.append(acc)
        outs.append(row)
    return np.array(outs)
def lift(a, D, P):
    out = np.zeros((D,P)+a.shape); out[0,:]=a; return out
D,P=3,2
print('--- dot rank combos')
shapes = {1:(3,), 2:(3,3), 3:(2,3,3)}
for rx, ry in itertools.product([1,2,3],[1,2,3]):
    sx = shapes[rx]; sy = shapes[ry]
    for kinds in ['UU','UA','AU']:
        x = U(D,P,*sx); y = U(D,P,*sy)
        xa = x.data[0,0].copy(); ya = y.data[0,0].copy()
        try:
            if kinds=='UU': r = algopy.dot(x,y); ref = conv(np.dot, x.data, y.data)
            elif kinds=='UA': r = algopy.dot(x,ya); ref = conv(np.dot, x.data, lift(ya,D,P))
            else: r = algopy.dot(xa,y); ref = conv(np.dot, lift(xa,D,P), y.data)
            ok = r.data.shape==ref.shape and np.allclose(r.data, ref)
            print(rx,ry,kinds, 'OK' if ok else 'MISMATCH shape %s vs %s'%(r.data.shape, ref.shape))
        except Exception as e:
            print(rx,ry,kinds,'EXC',type(e).__name__, str(e)[:80])
print('--- outer')
for n,m in [(3,3),(2,3),(3,2)]:
    for kinds in ['UU','UA','AU']:
        x = U(D,P,n); y = U(D,P,m); xa=x.data[0,0].copy(); ya=y.data[0,0].copy()
        try:
            if kinds=='UU': r = algopy.outer(x,y); ref = conv(np.outer, x.data, y.data)
            elif kinds=='UA': r = algopy.outer(x,ya); ref = conv(np.outer, x.data, lift(ya,D,P))
            else: r = algopy.outer(xa,y); ref = conv(np.outer, lift(xa,D,P), y.data)
            ok = r.data.shape==ref.shape and np.allclose(r.data, ref)
            print(n,m,kinds, 'OK' if ok else 'MISMATCH shape %s vs %s'%(r.data.shape, ref.shape))
        except Exception as e:
            print(n,m,kinds,'EXC',type(e).__name__, str(e)[:80])
print('--- inv/solve/det/logdet residuals')
def mm(a,b): return conv(np.dot, a, b)
for N in [1,2,4]:
    A = U(4,P,N,N); 
    for p in range(P): A.data[0,p] += 3*np.eye(N)
    # pivoting-required base
    if N>1:
        A.data[0,0] = A.data[0,0][::-1].copy()
    Ai = algopy.inv(A)
    I = mm(A.data, Ai.data); I[0] -= np.eye(N)
    print('inv residual N=%d'%N, np.abs(I).max())
    B = U(4,P,N,2)
    X = algopy.solve(A,B); print('solve resid', np.abs(mm(A.data,X.data)-B.data).max())
    Ba = B.data[0,0].copy()
    X = algopy.solve(A,Ba); print('solve const rhs resid', np.abs(mm(A.data,X.data)-lift(Ba,4,P)).max())
    Aa = A.data[0,0].copy()
    X = algopy.solve(Aa,B); print('solve const A resid', np.abs(mm(lift(Aa,4,P),X.data)-B.data).max())
    try:
        b1 = U(4,P,N); X = algopy.solve(A,b1); print('solve vector rhs shape', X.shape)
    except Exception as e: print('solve vector rhs EXC', type(e).__name__, str(e)[:80])
    # det via contour
    dt = algopy.det(A); ld = algopy.logdet(A)
    K=32; r=0.5
    zs = r*np.exp(2j*np.pi*np.arange(K)/K)
    for p in range(P):
        vals = np.array([np.linalg.det(sum(A.data[d,p]*z**d for d in range(4))) for z in zs])
        co = np.fft.fft(vals)/K
        co = np.array([co[d]/r**d for d in range(4)]).real
        sgn_ld = np.array([ (np.fft.fft(np.log(vals/vals[0].real*abs(vals[0].real)+0j))/K)[d]/r**d for d in range(4)])
        print('  det p=%d err'%p, np.abs(co-dt.data[:,p]).max(), ' logdet0', ld.data[0,p], np.linalg.slogdet(A.data[0,p]))
    print('  trace ok', np.allclose(algopy.trace(A).data, np.trace(A.data, axis1=2, axis2=3)))
