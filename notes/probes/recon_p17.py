import sys; sys.path.insert(0,'/repo')
import numpy as np, algopy
from algopy import UTPM
rng = np.random.default_rng(21)
def U(D,P,*shp, pos=False, spd=False, wc=False):
    d = rng.normal(size=(D,P)+tuple(shp))
    if pos: d[0] = rng.uniform(0.5,2.0,size=(P,)+tuple(shp))
    if wc:
        for p in range(P): d[0,p] += 3*np.eye(shp[0])
    if spd:
        for p in range(P): d[0,p] = d[0,p]@d[0,p].T + shp[0]*np.eye(shp[0])
        for k in range(1,D):
            for p in range(P): d[k,p] = d[k,p]+d[k,p].T
    return UTPM(d)
def outs(r):
    if isinstance(r, tuple): return [o for o in r if isinstance(o, UTPM)]
    return [r]
ops = {
 'exp': (lambda x: algopy.exp(x), lambda D,P: U(D,P,3)),
 'log': (lambda x: algopy.log(x), lambda D,P: U(D,P,3,pos=True)),
 'tan': (lambda x: algopy.tan(x*0.3), lambda D,P: U(D,P,3)),
 'gammaln': (lambda x: algopy.special.gammaln(x), lambda D,P: U(D,P,3,pos=True)),
 'erf': (lambda x: algopy.special.erf(x), lambda D,P: U(D,P,3)),
 'mul': (lambda x: x*x[::-1], lambda D,P: U(D,P,3)),
 'div': (lambda x: x[::-1]/x, lambda D,P: U(D,P,3,pos=True)),
 'pow2.5': (lambda x: x**2.5, lambda D,P: U(D,P,3,pos=True)),
 'dot': (lambda x: algopy.dot(x,x), lambda D,P: U(D,P,3,3)),
 'inv': (lambda x: algopy.inv(x), lambda D,P: U(D,P,3,3,wc=True)),
 'solve': (lambda x: algopy.solve(x,x.T), lambda D,P: U(D,P,3,3,wc=True)),
 'det': (lambda x: algopy.det(x), lambda D,P: U(D,P,3,3,wc=True)),
 'logdet': (lambda x: algopy.logdet(x), lambda D,P: U(D,P,3,3,spd=True)),
 'qr': (lambda x: algopy.qr(x), lambda D,P: U(D,P,4,3)),
 'qr_full': (lambda x: algopy.qr_full(x), lambda D,P: U(D,P,4,3)),
 'cholesky': (lambda x: algopy.cholesky(x), lambda D,P: U(D,P,3,3,spd=True)),
 'lu': (lambda x: algopy.lu(x), lambda D,P: U(D,P,3,3)),
 'eigh': (lambda x: algopy.eigh(x), lambda D,P: U(D,P,3,3,spd=True)),
 'svd': (lambda x: algopy.svd(x), lambda D,P: U(D,P,3,4)),
 'expm': (lambda x: algopy.expm(x*0.2), lambda D,P: U(D,P,3,3)),
 'sum': (lambda x: algopy.sum(x,axis=0), lambda D,P: U(D,P,3,3)),
 'prod': (lambda x: algopy.prod(x), lambda D,P: U(D,P,4)),
}
D,P=7,3
for name,(f,gen) in ops.items():
    x = gen(D,P)
    try:
        full = outs(f(x))
        w11=w12=0
        for p in range(P):
            part = outs(f(UTPM(x.data[:,p:p+1].copy())))
            for a,b in zip(full,part):
                s = np.abs(a.data[:,p]).max()+1e-300
                w11 = max(w11, np.abs(a.data[:,p]-b.data[:,0]).max()/s)
        for Dp in range(1,D):
            part = outs(f(UTPM(x.data[:Dp].copy())))
            for a,b in zip(full,part):
                for d in range(Dp):
                    s = np.abs(a.data[d]).max()+1e-300
                    w12 = max(w12, np.abs(a.data[d]-b.data[d]).max()/s)
        print('%-9s C11 noise %.1e   C12 noise %.1e'%(name,w11,w12))
    except Exception as e:
        print(name,'EXC',type(e).__name__,str(e)[:100])
