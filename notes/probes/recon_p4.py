import sys, time; sys.path.insert(0,'/repo')
import numpy as np, algopy, scipy.special
from algopy import UTPM
assert algopy.nthderiv.__dict__.get('mpmath') is None
sys.path.append('/verif/.deps')
import mpmath as mp
mp.mp.dps = 50
rng = np.random.default_rng(0)

def compose(fk, xs):
    """fk: taylor coeffs of f at x0 (list len D); xs: list of mp coefficients x_0..x_{D-1}; returns coeffs of f(x(t)) mod t^D"""
    D = len(xs)
    h = [mp.mpf(0)]+list(xs[1:])   # x(t)-x0
    # Horner: result = f_{D-1}; result = result*h + f_k
    res = [mp.mpf(0)]*D
    res = [mp.mpc(0)]*D if any(isinstance(v, mp.mpc) for v in list(fk)+list(xs)) else res
    for k in range(D-1, -1, -1):
        # res = res*h + fk[k]
        new = [0]*D
        for i in range(D):
            if res[i] == 0: continue
            for j in range(1, D-i):
                new[i+j] += res[i]*h[j]
        new[0] += fk[k]
        res = new
    return res

def dawsn(x): return mp.sqrt(mp.pi)/2*mp.exp(-x*x)*mp.erfi(x)
F = {
 'exp': (mp.exp, algopy.exp, lambda r: r.normal(size=1)[0]),
 'expm1': (mp.expm1, algopy.expm1, lambda r: r.normal()),
 'log': (mp.log, algopy.log, lambda r: r.uniform(0.3,3)),
 'log1p': (mp.log1p, algopy.log1p, lambda r: r.uniform(-0.6,3)),
 'sqrt': (mp.sqrt, algopy.sqrt, lambda r: r.uniform(0.3,3)),
 'sin': (mp.sin, algopy.sin, lambda r: r.normal()),
 'cos': (mp.cos, algopy.cos, lambda r: r.normal()),
 'tan': (mp.tan, algopy.tan, lambda r: r.uniform(-1.2,1.2)),
 'arcsin': (mp.asin, algopy.arcsin, lambda r: r.uniform(-.8,.8)),
 'arccos': (mp.acos, algopy.arccos, lambda r: r.uniform(-.8,.8)),
 'arctan': (mp.atan, algopy.arctan, lambda r: r.normal()),
 'sinh': (mp.sinh, algopy.sinh, lambda r: r.normal()),
 'cosh': (mp.cosh, algopy.cosh, lambda r: r.normal()),
 'tanh': (mp.tanh, algopy.tanh, lambda r: r.normal()),
 'reciprocal': (lambda x: 1/x, algopy.reciprocal, lambda r: r.uniform(0.4,2)*r.choice([-1,1])),
 'square': (lambda x: x*x, algopy.square, lambda r: r.normal()),
 'erf': (mp.erf, algopy.special.erf, lambda r: r.normal()),
 'erfi': (mp.erfi, algopy.special.erfi, lambda r: r.normal()),
 'dawsn': (dawsn, algopy.special.dawsn, lambda r: r.normal()),
 'logit': (lambda x: mp.log(x/(1-x)), algopy.special.logit, lambda r: r.uniform(.15,.85)),
 'expit': (lambda x: 1/(1+mp.exp(-x)), algopy.special.expit, lambda r: r.normal()),
 'gammaln': (mp.loggamma, algopy.special.gammaln, lambda r: r.uniform(.5,4)),
 'psi': (mp.digamma, algopy.special.psi, lambda r: r.uniform(.5,4)),
 'polygamma2': (lambda x: mp.psi(2,x), lambda x: algopy.special.polygamma(2,x), lambda r: r.uniform(.5,4)),
 'hyperu': (lambda x: mp.hyperu(1.5,2.25,x), lambda x: algopy.special.hyperu(1.5,2.25,x), lambda r: r.uniform(.5,4)),
 'pow2.5': (lambda x: x**mp.mpf(2.5), lambda x: x**2.5, lambda r: r.uniform(.3,3)),
 'pow-3': (lambda x: x**-3, lambda x: x**-3, lambda r: r.uniform(.3,3)),
 'pow5': (lambda x: x**5, lambda x: x**5, lambda r: r.normal()),
 'rpow': (lambda x: mp.mpf(2.5)**x, lambda x: 2.5**x, lambda r: r.normal()),
 'abs': (lambda x: abs(x), algopy.absolute, lambda r: r.uniform(.2,2)*r.choice([-1,1])),
 'negative': (lambda x: -x, algopy.negative, lambda r: r.normal()),
}
D,P = 8,2
t0=time.time()
for name,(mf, af, gen) in F.items():
    shp=(3,)
    data = rng.normal(size=(D,P)+shp)*0.7
    for p in range(P):
        for i in range(shp[0]): data[0,p,i] = gen(rng)
    try:
        y = af(UTPM(data.copy()))
    except Exception as e:
        print(name, 'EXC', type(e).__name__, e); continue
    worst = 0
    for p in range(P):
        for i in range(shp[0]):
            xs = [mp.mpf(float(v)) for v in data[:,p,i]]
            fk = mp.taylor(mf, xs[0], D-1)
            ref = compose(fk, xs)
            maj = compose([abs(v) for v in fk], [abs(v) for v in xs])
            for d in range(D):
                err = abs(mp.mpf(float(y.data[d,p,i])) - ref[d])
                rel = err/(maj[d] + mp.mpf(10)**-300)
                worst = max(worst, float(rel))
    print('%-12s worst err/majorant = %.2e'%(name, worst))
print('time', time.time()-t0)
