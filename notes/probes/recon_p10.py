import sys; sys.path.insert(0,'/repo')
import numpy as np, algopy
from algopy import UTPM, CGraph, Function
rng = np.random.default_rng(11)
def shift_Jv(f, xdata, vdata):
    """forward-only: [F'(x(t)) v(t)]_d for d<D using curves z_s(t) = x(t) + s t^D v(t) with 2D coefficients; s in {0,1} as extra directions"""
    D,P = xdata.shape[:2]
    z = np.zeros((2*D, 2*P)+xdata.shape[2:])
    z[:D,:P] = xdata; z[:D,P:] = xdata
    z[D:,P:] = vdata
    y = f(UTPM(z))
    return y.data[D:,P:] - y.data[D:,:P]
def pairing(a, b):
    # a,b: data arrays (D,P,...) ; returns (D,P) polynomial of sum_elements (a*b)(t)
    D,P = a.shape[:2]
    out = np.zeros((D,P))
    for d in range(D):
        for c in range(d+1):
            out[d] += (a[c]*b[d-c]).reshape(P,-1).sum(axis=1)
    return out
def check(f, x0, D=4, P=2, label=''):
    cg = CGraph(); fx = Function(UTPM(x0.reshape((1,1)+x0.shape).copy())); fy = f(fx); cg.trace_off()
    cg.independentFunctionList=[fx]; cg.dependentFunctionList=[fy]
    xd = rng.normal(size=(D,P)+x0.shape)*0.3; xd[0] += x0
    cg.pushforward([UTPM(xd.copy())])
    y = cg.dependentFunctionList[0].x
    ybar = rng.normal(size=y.data.shape)
    cg.pullback([UTPM(ybar.copy())])
    xbar = cg.independentFunctionList[0].xbar.data
    v = rng.normal(size=xd.shape)
    Jv = shift_Jv(f, xd, v)
    lhs = pairing(xbar, v); rhs = pairing(ybar, Jv)
    scale = pairing(np.abs(xbar), np.abs(v)) + pairing(np.abs(ybar), np.abs(Jv))
    print(label, 'max rel', np.max(np.abs(lhs-rhs)/scale))
x0 = np.array([1.2,0.7,2.1])
check(lambda x: algopy.sin(x)*algopy.exp(x)/x, x0, label='elem')
check(lambda x: algopy.sum(x**2.5)+algopy.log(x[0]*x[1]), x0, label='pow log')
X = rng.normal(size=(3,3))+3*np.eye(3)
check(lambda x: algopy.inv(x), X, label='inv')
check(lambda x: algopy.qr(x)[1], X, label='qr R')
check(lambda x: algopy.eigh(algopy.dot(x,x.T))[0], X, label='eigh lam')
check(lambda x: algopy.eigh(algopy.dot(x,x.T))[1], X, label='eigh Q')
check(lambda x: algopy.logdet(x), X, label='logdet')
check(lambda x: algopy.special.gammaln(x)*algopy.special.erf(x), x0, label='special')
check(lambda x: algopy.outer(x,x), x0, label='outer (known bad)')
check(lambda x: x**-2, x0, label='x**-2 (known bad)')
# mp.diff speed
sys.path.append('/verif/.deps'); import mpmath as mp, time
mp.mp.dps=30
f = lambda a,b,c: mp.sin(a*b)*mp.exp(c)/ (1+a*a) + mp.log(b*b+c*c)
t=time.time()
H = [[mp.diff(f,(1.2,0.7,2.1), tuple(int(k==i)+int(k==j) for k in range(3))) for j in range(3)] for i in range(3)]
print('mp hessian time', time.time()-t)
