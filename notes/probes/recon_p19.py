import sys; sys.path.insert(0, __import__('os').environ.get('ALGOPY_REPO','/repo'))
import numpy as np, algopy
from algopy import UTPM, CGraph, Function
x0 = np.random.randn(3,4)
cg = CGraph(); fx = Function(x0); fy = algopy.fft.fft(fx, axis=0); cg.trace_off()
cg.independentFunctionList=[fx]; cg.dependentFunctionList=[fy]
print('recorded kwargs', cg.functionList[1].kwargs)
print('recording value ok', np.allclose(fy.x, np.fft.fft(x0,axis=0)))
x1 = np.random.randn(3,4)
r = cg.function([x1])[0]
print('replay == fft axis0:', np.allclose(r, np.fft.fft(x1,axis=0)), ' replay == fft axis -1:', np.allclose(r, np.fft.fft(x1,axis=-1)))
