import sys, itertools, operator, collections; sys.path.insert(0,'/repo')
import numpy as np, algopy
from algopy import UTPM
rng = np.random.default_rng(4)
def series_ref(op, a, b):
    """a,b: arrays (D,P)+shape (already broadcast-compatible on trailing dims). elementwise series op via own loops"""
    a,b = np.broadcast_arrays(a,b)  # both (D,P)+S after alignment by caller
    D = a.shape[0]
    out = np.zeros(a.shape, dtype=np.result_type(a,b,float))
    if op=='add': return a+b
    if op=='sub': return a-b
    if op=='mul':
        for d in range(D):
            for c in range(d+1): out[d] += a[c]*b[d-c]
        return out
    if op=='div':
        for d in range(D):
            acc = a[d].astype(out.dtype)
            for c in range(d): acc = acc - out[c]*b[d-c]
            out[d] = acc/b[0]
        return out
def lift(c, D, P, nd):
    c = np.asarray(c)
    out = np.zeros((D,P)+c.shape, dtype=np.result_type(c,float)); out[0,:] = c; return out
def align(xd, yd):
    # pad trailing-shape dims so numpy broadcasting of (D,P)+S works right-aligned on S
    sx, sy = xd.shape[2:], yd.shape[2:]
    n = max(len(sx),len(sy))
    xd = xd.reshape(xd.shape[:2]+(1,)*(n-len(sx))+sx); yd = yd.reshape(yd.shape[:2]+(1,)*(n-len(sy))+sy)
    return xd, yd
D,P = 3,2
shapes = [(), (1,), (2,), (3,), (2,3), (1,3), (2,1), (P,), (P,3), (D,3), (2,2,3)]
ops = {'add':operator.add,'sub':operator.sub,'mul':operator.mul,'div':operator.truediv}
res = collections.Counter(); bad = collections.defaultdict(list)
for opn, opf in ops.items():
    for sx, sy in itertools.product(shapes, shapes):
        try: np.broadcast_shapes(sx,sy)
        except ValueError: continue
        for kind in ['UU','UA','AU','US','SU','Unp','npU','UAc','AcU']:
            x = UTPM(rng.normal(size=(D,P)+sx)); x.data[0] = rng.uniform(1,2,size=(P,)+sx)
            if kind=='UU':
                y = UTPM(rng.normal(size=(D,P)+sy)); y.data[0] = rng.uniform(1,2,size=(P,)+sy); a,b = x,y; ad,bd = x.data,y.data
            elif kind in('UA','AU','UAc','AcU'):
                c = rng.uniform(1,2,size=sy) + (1j*rng.uniform(1,2,size=sy) if 'c' in kind else 0)
                if kind[0]=='U': a,b = x,c; ad,bd = x.data, lift(c,D,P,0)
                else: a,b = c,x; ad,bd = lift(c,D,P,0), x.data
            elif kind in('US','SU','Unp','npU'):
                if sy!=(): continue
                c = 1.5 if 'S' in kind else np.float64(1.5)
                if kind[0]=='U': a,b = x,c; ad,bd = x.data, lift(c,D,P,0)
                else: a,b = c,x; ad,bd = lift(c,D,P,0), x.data
            key=(opn,kind)
            try:
                r = opf(a,b)
            except Exception as e:
                res[key+('EXC',)] += 1; bad[key+('EXC',)].append((sx,sy,type(e).__name__)); continue
            ad2,bd2 = align(ad,bd)
            ref = series_ref(opn, ad2, bd2)
            if not isinstance(r, UTPM): res[key+('notUTPM',)]+=1; bad[key+('notUTPM',)].append((sx,sy,type(r).__name__)); continue
            if r.data.shape != ref.shape: res[key+('SHAPE',)]+=1; bad[key+('SHAPE',)].append((sx,sy,r.data.shape,ref.shape)); continue
            if not np.allclose(r.data, ref, rtol=1e-10, atol=1e-12): res[key+('VALUE',)]+=1; bad[key+('VALUE',)].append((sx,sy)); continue
            res[key+('ok',)]+=1
for k in sorted(res): print(k, res[k], bad[k][:4] if k[2]!='ok' else '')
