import sys; sys.path.insert(0, __import__('os').environ.get('ALGOPY_REPO','/repo'))
import numpy as np, algopy
from algopy import UTPM, CGraph, Function
np.random.seed(1)
def record(f, x):
    cg = CGraph(); fx = Function(x); fy = f(fx); cg.trace_off()
    cg.independentFunctionList=[fx]; cg.dependentFunctionList=[fy]
    return cg
def grad_fresh(f, xv):
    cg = record(f, xv.copy()); return np.array(cg.gradient(xv.copy()))
def test(f, label):
    x_rec = np.array([1.2,0.7,2.1]); x_ev = np.array([0.4,1.3,0.9])
    cg = record(f, x_rec)
    g1 = np.array(cg.gradient(x_ev)); g2 = np.array(cg.gradient(x_ev))
    ref = grad_fresh(f, x_ev)
    h = 1e-6; fd = np.array([ (f(x_ev+h*e)-f(x_ev-h*e))/(2*h) for e in np.eye(3)])
    print(label, 'grad@other point ok:', np.allclose(g1, fd, rtol=1e-5), ' repeat same:', np.allclose(g1,g2), ' fresh ok:', np.allclose(ref, fd, rtol=1e-5))
    # two pullbacks after one forward
    x = UTPM(x_ev.reshape(1,1,3).copy()); cg.pushforward([x])
    ybar = cg.dependentFunctionList[0].x.zeros_like(); ybar.data[0]=1
    snap = [ (n.ID, n.func.__name__, None if not isinstance(n.x, UTPM) else n.x.data.copy()) for n in cg.functionList]
    cg.pullback([ybar]); a = cg.independentFunctionList[0].xbar.data.copy()
    changed = [ (i,nm) for (i,nm,s),n in zip(snap, cg.functionList) if s is not None and not np.array_equal(s, n.x.data)]
    cg.pullback([ybar]); b = cg.independentFunctionList[0].xbar.data.copy()
    print('    second pullback same:', np.allclose(a,b), ' nodes whose forward value changed during pullback:', changed)
test(lambda x: algopy.sum(algopy.tan(x)*x), 'tan*x')
test(lambda x: algopy.sum(algopy.sin(x)*x), 'sin*x')
def buf1(x):
    b = algopy.zeros(3, dtype=x)
    b[0] = x[0]*x[1]; b[1] = x[2]*x[2]; b[2]=x[0]
    return algopy.sum(b*b)
test(buf1, 'buffer write-once')
def buf2(x):
    b = algopy.zeros(3, dtype=x)
    b[0] = x[0]*x[1]
    b[1] = b[0]*x[2]
    b[2] = algopy.sin(b[1])
    b[0] = b[2]*b[0]
    return algopy.sum(b*b)
test(buf2, 'buffer overwrite')
test(lambda x: algopy.sum(x**2.5 + algopy.sqrt(x)*algopy.log(x)), 'pow/sqrt/log')
test(lambda x: algopy.sum(algopy.exp(x)/x + algopy.cos(x)), 'exp/div/cos')
test(lambda x: algopy.logdet(algopy.outer(x,x)+ np.eye(3)*3), 'logdet outer')
test(lambda x: algopy.sum(algopy.inv(algopy.outer(x,x)+ np.eye(3)*3)), 'inv')
test(lambda x: algopy.sum(algopy.qr(algopy.outer(x,x)+ np.diag([1.,2,3]))[1]), 'qr')
test(lambda x: algopy.sum(algopy.eigh(algopy.outer(x,x)+ np.diag([1.,2,3]))[0]*x), 'eigh')
test(lambda x: algopy.sum(algopy.special.erf(x)*algopy.special.gammaln(x)), 'erf gammaln')
