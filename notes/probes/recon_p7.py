import sys; sys.path.insert(0,'/repo')
import numpy as np, algopy, scipy.linalg
from algopy import UTPM
rng = np.random.default_rng(5)
def U(D,P,*shp): return UTPM(rng.normal(size=(D,P)+tuple(shp)))
def mm(a,b):
    D,P = a.shape[:2]
    out = np.zeros((D,P)+np.dot(a[0,0],b[0,0]).shape, dtype=np.result_type(a,b))
    for d in range(D):
        for p in range(P):
            for c in range(d+1): out[d,p] += np.dot(a[c,p], b[d-c,p])
    return out
def T(a): return np.swapaxes(a,-1,-2)
def eye_series(D,P,n):
    e = np.zeros((D,P,n,n)); e[0,:] = np.eye(n); return e
D,P = 6,2
for (M,N) in [(3,3),(5,3),(3,5)]:
    A = U(D,P,M,N)
    Q,R = algopy.qr(A)
    print('qr',M,N,'QR-A', np.abs(mm(Q.data,R.data)-A.data).max(), 'QtQ-I', np.abs(mm(T(Q.data),Q.data)-eye_series(D,P,min(M,N))).max(), 'R lower', np.abs(np.tril(R.data,-1)).max(),
      'Q0==np', np.array_equal(Q.data[0,0], np.linalg.qr(A.data[0,0])[0]))
    if M>=N:
        Q,R = algopy.qr_full(A)
        print('qr_full',M,N,'QR-A', np.abs(mm(Q.data,R.data)-A.data).max(), 'QtQ-I', np.abs(mm(T(Q.data),Q.data)-eye_series(D,P,M)).max(), 'R lower', np.abs(np.tril(R.data,-1)).max())
N=4
B = U(D,P,N,N); A = UTPM(mm(B.data, T(B.data))); 
for p in range(P): A.data[0,p] += 2*np.eye(N)
L = algopy.cholesky(A)
print('chol LLt-A', np.abs(mm(L.data,T(L.data))-A.data).max(), 'upper', np.abs(np.triu(L.data,1)).max(), 'L0==np', np.array_equal(L.data[0,0], np.linalg.cholesky(A.data[0,0])))
A = U(D,P,N,N)
W,Lm,Um = algopy.lu(A)
print('lu PLU-A', np.abs(mm(W.data, mm(Lm.data,Um.data))-A.data).max(), 'W higher', np.abs(W.data[1:]).max(), 'L upper', np.abs(np.triu(Lm.data,1)).max(), 'L diag-1', np.abs(np.diagonal(Lm.data[0],axis1=-2,axis2=-1)-1).max(), 'Ldiag hi', np.abs(np.diagonal(Lm.data[1:],axis1=-2,axis2=-1)).max(), 'U lower', np.abs(np.tril(Um.data,-1)).max())
S = UTPM(A.data + T(A.data))
l,Q = algopy.eigh(S)
Ld = np.zeros((D,P,N,N)); 
for d in range(D):
    for p in range(P): Ld[d,p] = np.diag(l.data[d,p])
print('eigh AQ-QL', np.abs(mm(S.data,Q.data)-mm(Q.data,Ld)).max(), 'QtQ-I', np.abs(mm(T(Q.data),Q.data)-eye_series(D,P,N)).max(), 'asc', np.all(np.diff(l.data[0],axis=-1)>=0), 'l0==np', np.array_equal(l.data[0,0], np.linalg.eigh(S.data[0,0])[0]))
# repeated eigenvalues: A(t) = Q(t) diag(lam(t)) Q(t)^T
def rep_case(D,P,N,split_order):
    out = np.zeros((D,P,N,N))
    for p in range(P):
        # Q(t) = expm-ish: use qr of polynomial matrix to get orthogonal series
        G = UTPM(rng.normal(size=(D,1,N,N)))
        Qs,_ = algopy.qr(G)
        lam = np.zeros((D,1,N)); lam[0,0] = [1,1,1,2][:N]
        lam[split_order,0] = rng.normal(size=N)
        Lam = np.zeros((D,1,N,N))
        for d in range(D): Lam[d,0] = np.diag(lam[d,0])
        out[:,p:p+1] = mm(mm(Qs.data, Lam), T(Qs.data))
    return UTPM(out)
for so in [1,2,3]:
    S = rep_case(D,P,N,so)
    l,Q = algopy.eigh(S)
    Ld = np.zeros((D,P,N,N)); 
    for d in range(D):
        for p in range(P): Ld[d,p] = np.diag(l.data[d,p])
    print('eigh repeated split@%d AQ-QL'%so, np.abs(mm(S.data,Q.data)-mm(Q.data,Ld)).max(), 'QtQ-I', np.abs(mm(T(Q.data),Q.data)-eye_series(D,P,N)).max())
for (M,N) in [(3,3),(4,2),(2,4)]:
    A = U(4,P,M,N)
    try:
        Uu,s,V = algopy.svd(A)
        K=min(M,N)
        Sd = np.zeros((4,P,M,N))
        for d in range(4):
            for p in range(P): Sd[d,p,:K,:K] = np.diag(s.data[d,p])
        print('svd',M,N,'USVt-A', np.abs(mm(Uu.data, mm(Sd, T(V.data)))-A.data).max(), 'UtU', np.abs(mm(T(Uu.data),Uu.data)-eye_series(4,P,M)).max(), 'VtV', np.abs(mm(T(V.data),V.data)-eye_series(4,P,N)).max(), 's0', s.data[0,0])
    except Exception as e: print('svd',M,N,'EXC',type(e).__name__, str(e)[:100])
A = U(2,P,4,4)
l,Q = algopy.eig(A)
Ld = np.zeros((2,P,4,4),dtype=l.data.dtype)
for d in range(2):
    for p in range(P): Ld[d,p] = np.diag(l.data[d,p])
print('eig AQ-QL', np.abs(mm(A.data.astype(l.data.dtype),Q.data)-mm(Q.data,Ld)).max(), l.data.dtype)
