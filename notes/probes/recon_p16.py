import sys; sys.path.insert(0, __import__('os').environ.get('ALGOPY_REPO','/repo'))
import numpy as np, algopy
from algopy import UTPM, CGraph, Function
rng = np.random.default_rng(2)
def record(f, xr):
    cg = CGraph(); fx = Function(xr); fy = f(fx); cg.trace_off()
    cg.independentFunctionList=[fx]; cg.dependentFunctionList=[fy]; return cg
def t(label, fn):
    try: r = fn(); print(label, '->', np.round(np.asarray(r, dtype=float),6).tolist() if not isinstance(r, UTPM) else ('UTPM', r.data.shape))
    except Exception as e: print(label, 'EXC', type(e).__name__, str(e).strip().splitlines()[-1][:110])
# scalar function
fs = lambda x: x[0]*x[1]*x[2] + x[0]**2
# vector function R3->R2, R3->R3
fv2 = lambda x: algopy.dot(np.array([[1.,2,3],[0,1,0]]), x*x)
def fv3(x):
    y = algopy.zeros(3, dtype=x); y[0]=x[0]*x[1]; y[1]=x[1]*x[2]; y[2]=x[0]*x[2]*x[2]; return y
x = np.array([1.,2.,3.]); v = np.array([1.,0.,-1.]); w3 = np.array([1.,2.,0.5]); w2 = np.array([1.,-1.])
for kind, xr in [('float', np.array([.5,.6,.7])), ('int', np.array([1,2,3])), ('utpm31', UTPM(rng.normal(size=(3,1,3)))), ('utpm22', UTPM(rng.normal(size=(2,2,3))))]:
    print('=== recorded with', kind)
    cg = record(fs, xr)
    t(' gradient', lambda: cg.gradient(x)); t(' gradient(list)', lambda: cg.gradient([x])[0])
    t(' jacobian M=1', lambda: cg.jacobian(x)); t(' hessian', lambda: cg.hessian(x))
    t(' jac_vec', lambda: cg.jac_vec(x,v)); t(' vec_jac', lambda: cg.vec_jac(np.array([2.]),x))
    t(' hess_vec', lambda: cg.hess_vec(x,v)); t(' vec_hess', lambda: cg.vec_hess(np.array([2.]), x)); t(' vec_hess_vec', lambda: cg.vec_hess_vec(np.array([2.]), x, v))
    cg = record(fv2, xr)
    t(' [R3->R2] jacobian', lambda: cg.jacobian(x)); t(' jac_vec', lambda: cg.jac_vec(x,v)); t(' vec_jac', lambda: cg.vec_jac(w2,x)); t(' vec_hess', lambda: cg.vec_hess(w2,x)); t(' vec_hess_vec', lambda: cg.vec_hess_vec(w2,x,v))
    cg = record(fv3, xr)
    t(' [R3->R3 buffer] jacobian', lambda: cg.jacobian(x)); t(' vec_jac', lambda: cg.vec_jac(w3,x)); t(' vec_hess', lambda: cg.vec_hess(w3,x)); t(' vec_hess_vec', lambda: cg.vec_hess_vec(w3,x,v))
    t(' jacobian(UTPM)', lambda: cg.jacobian(UTPM(rng.normal(size=(3,2,3)))))
print('expected grad', [2*3+2*1, 1*3, 1*2], 'hess', [[2,3,2],[3,0,1],[2,1,0]])
