import sys, time; sys.path.insert(0,'/repo')
import numpy as np, algopy, itertools, math
from fractions import Fraction
import algopy.exact_interpolation as ei
import algopy.nthderiv as nd
sys.path.append('/verif/.deps'); import mpmath as mp
mp.mp.dps = 40
t=time.time()
for N in range(1,5):
    for d in range(1,5):
        G, rays = ei.generate_Gamma_and_rays(N,d)
        J = ei.generate_multi_indices(N,d)
        exp = sorted(c for c in itertools.product(range(d+1), repeat=N) if sum(c)==d)
        ok_mi = sorted(map(tuple,J.tolist()))==exp and len(J)==math.comb(N+d-1,d)
        worst = 0
        for i in range(len(J)):
            for a in range(len(J)):
                s = Fraction(0); m = Fraction(0)
                for j in range(len(J)):
                    term = Fraction(float(G[i,j]))
                    for n in range(N): term *= Fraction(int(rays[j,n]))**int(J[a,n])
                    s += term; m += abs(term)
                r = abs(s - (1 if i==a else 0))
                worst = max(worst, float(r/(m+1)))
        print(N,d,'mi ok',ok_mi,'worst resid/maj %.2e'%worst)
print('C15 time', time.time()-t)
# C16
funcs = {
 'exp': (mp.exp, lambda r: r.normal()), 'exp2': (lambda x: mp.mpf(2)**x, lambda r: r.normal()), 'expm1': (mp.expm1, lambda r: r.normal()),
 'log': (mp.log, lambda r: r.uniform(.3,3)), 'log2': (lambda x: mp.log(x,2), lambda r: r.uniform(.3,3)), 'log10': (mp.log10, lambda r: r.uniform(.3,3)),
 'log1p': (mp.log1p, lambda r: r.uniform(-.6,3)), 'sqrt': (mp.sqrt, lambda r: r.uniform(.3,3)), 'square': (lambda x:x*x, lambda r:r.normal()),
 'reciprocal': (lambda x:1/x, lambda r: r.uniform(.4,2)*r.choice([-1,1])), 'negative': (lambda x:-x, lambda r:r.normal()),
 'sin': (mp.sin, lambda r:r.normal()), 'cos': (mp.cos, lambda r:r.normal()),
 'arcsin': (mp.asin, lambda r:r.uniform(-.8,.8)), 'arccos': (mp.acos, lambda r:r.uniform(-.8,.8)), 'arctan': (mp.atan, lambda r:r.normal()),
 'sinh': (mp.sinh, lambda r:r.normal()), 'cosh': (mp.cosh, lambda r:r.normal()),
 'arcsinh': (mp.asinh, lambda r:r.normal()), 'arccosh': (mp.acosh, lambda r:r.uniform(1.3,4)), 'arctanh': (mp.atanh, lambda r:r.uniform(-.8,.8)),
 'erf': (mp.erf, lambda r:r.normal()), 'erfi': (mp.erfi, lambda r:r.normal()),
 'gammaln': (mp.loggamma, lambda r:r.uniform(.5,4)), 'psi': (mp.digamma, lambda r:r.uniform(.5,4)),
}
rng = np.random.default_rng(0)
for name,(mf,gen) in funcs.items():
    f = getattr(nd,name)
    worst = {}
    for trial in range(5):
        x = float(gen(rng))
        for n in range(0,9):
            try:
                got = float(np.asarray(f(np.array([x]), n=n))[0])
            except Exception as e:
                worst[n] = 'EXC '+type(e).__name__; continue
            ref = mp.diff(mf, mp.mpf(x), n)
            rel = abs((mp.mpf(got)-ref)/ (abs(ref)+mp.mpf(10)**-30))
            if not isinstance(worst.get(n), str): worst[n] = max(worst.get(n,0), float(rel))
    print('%-10s'%name, ' '.join('%s'%( v if isinstance(v,str) else '%.0e'%v) for n,v in sorted(worst.items())))
for n in range(0,5):
    print('erf(0,n=%d)'%n, nd.erf(np.array([0.]), n=n), ' erfi', nd.erfi(np.array([0.]),n=n), ' arctan(0)', nd.arctan(np.array([0.]),n=n) if n else '', 'arcsin0', nd.arcsin(np.array([0.]),n=n) if n else '')
print('polygamma', nd.polygamma(1, np.array([1.5]), n=2), float(mp.psi(3, 1.5)))
print('hyperu', nd.hyperu(1.5,2.25,np.array([1.3]), n=2), mp.diff(lambda x: mp.hyperu(1.5,2.25,x), 1.3, 2))
